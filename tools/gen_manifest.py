#!/usr/bin/env python3
"""Regenerates /verif/MANIFEST.json from the table below (keeps it schema-valid at all times)."""
import json, os, subprocess
V = os.path.dirname(os.path.dirname(os.path.abspath(__file__)))

# id -> (category, technique, text, note, design_ref)
CHECKS = {
 "C18": ("exploration", "runtime monitor: the real macro implementation executed as a library on generated declarations with the generated code interpreted against the declaration table; compiled batches executed against their tables; broken declarations must fail in the macro or in rustc",
         "Library stage: hundreds (quick) / tens of thousands (thorough) of random well-formed declarations are expanded by both front-ends (identical token streams required, panics caught) and every match arm of the generated impls is checked against the declaration table. Compiled stage: a batch of 12/48 declarations is emitted as real macro invocations, compiled by cargo against /repo and executed: data type, path, constructor and accessor matrices, get_id, raw tags, Void/Crc32 for every declared and undeclared probe id, then writer/reader round trip and hostile-bytes parses under catch_unwind. Reject stage: 17 classes of broken declarations (minimal and embedded) must be rejected by the macro or fail to compile.",
         "the token-stream interpreter is validated by the compiled stage of the same run; only the rejection classes named in the property are demanded", "DESIGN.md §5 C18"),
 "C03": ("exploration", "runtime monitor: trace oracle over (item, offset) sequences of the real iterator checked against the input bytes with an independent reference decoder",
         "For valid, truncated, mutated, adversarial, random and mid-document inputs under random configurations and short-read sources, every Ok item before the first error is checked against the bytes at its reported offset: id, documented value decoding, tiling of successive elements, End/Full offsets (implied ancestors at 0), with buffered parses aligned against an unbuffered parse of the same bytes.",
         "a 0x00 byte where an id should start is a don't-care (reported as raw id 0 when unknown ids are tolerated); items after the first error are not judged", "DESIGN.md §5 C03"),
 "C06": ("exploration", "runtime monitor: independent replay checker (own stack, reference path matcher, extents from reference header decode) over the Ok items of strict parses",
         "Strict parses of valid/mutated/misplaced-insert/truncated/adversarial/mid-document inputs are replayed against an independent nesting + path + extent checker: End matches innermost open master, no raw tags, declared path matches the chain once the position is fixed, containment in known-size ancestors, End timing of known-size masters, justification of every unknown-size closing, empty stack on a clean end.",
         "closings of unknown-size global masters (may contain themselves) are a don't-care; unbuffered parses only", "DESIGN.md §5 C06"),
 "C07": ("exploration", "runtime monitor: differential reading of every unknown-size subset encoding of the same tree (real writer and reference encoder) against the tree",
         "For random trees (incl. chains of 3-7 nested masters) every subset of eligible masters (all 2^m for m <= 5/8) is encoded with unknown size by the real writer and by the reference encoder (all-ones widths 1-8) and read by the real strict iterator; the item sequence must equal the flattened tree, i.e. the all-known-size reading.",
         "global masters and masters directly followed by a global/raw element are not eligible (ambiguity excluded by the statement)", "DESIGN.md §5 C07"),
 "C08": ("exploration", "runtime monitor: differential buffered vs unbuffered parses of the same bytes for all/random buffered-id subsets",
         "Each input is parsed without buffering and with every subset (<= 4/6 masters) or random subsets of the master ids that occur; flatten(buffered) must equal the unbuffered items when that parse is clean (and be clean too), be a prefix followed by an error when it is not; offsets of elements outside Full items must agree.",
         "end-of-stream closing left enabled (with it disabled a still-open buffered master can never become a Full)", "DESIGN.md §5 C08"),
 "C12": ("fault_enumeration", "runtime monitor: truncation at every byte of valid documents; expected items and EOF-error fields computed arithmetically from the reference layout",
         "Every cut position 0..=len of each generated valid document (known/unknown/mixed sizes, 1-8 byte ids and sizes) is parsed strictly under random capacity/chunking/poison; items must be exactly the complete tags of the prefix and the end must be the open masters' Ends + None on a boundary, otherwise UnexpectedEOF with exact tag_start / tag_id / tag_size / partial_data, never a corruption error.",
         "Ends of unknown-size masters that only the incomplete element would close are a don't-care", "DESIGN.md §5 C12"),
 "C13": ("exploration", "runtime monitor: single-fault injection x all 8 tolerance subsets, default-limit probes, strict-vs-tolerant prefix differential",
         "Single-fault documents (unknown id / misplaced element / oversized child / size above limit) are parsed under all 8 tolerance subsets: the non-tolerated fault must be reported with its own error kind at the element (offset, id, size) after exactly the valid prefix, a tolerated kind must never occur; 4*10^9+1 byte declarations are rejected under the untouched default limit in all settings, declarations at or below the limit in force (default or explicit) are never refused as too large; a tolerated error kind stays impossible through try_recover(), also when a recovery runs out of input at a temporary end of file and is repeated; on arbitrary inputs from a root element the strict Ok items (with offsets) are a prefix of every more tolerant parse.",
         "hierarchy faults are injected into all-known-size documents", "DESIGN.md §5 C13"),
 "C14": ("fault_enumeration", "runtime monitor: junk insertion at every tag boundary, next()/try_recover()/next() driven on the real iterator, differential against the undamaged parse",
         "At every tag boundary of valid documents a junk run (1-40 bytes that cannot start any id of the specification) is inserted; when the following tag still fits its known-size ancestors the items before are unchanged, exactly one error is reported, try_recover() succeeds and the remaining items equal the undamaged parse shifted by the junk length; always: try_recover() never panics, never moves backwards and fails only with EOF/ReadError.",
         "layout from the reference decoder decides the precondition", "DESIGN.md §5 C14"),
 "C17": ("exploration", "runtime monitor: counting global allocator measuring per-call heap growth and largest request; allocation ceiling turning runaway requests into reports; valgrind massif cross-check of curated cases (thorough)",
         "Hostile headers (declared sizes 0..2^56-2 in every width, all element types, root / known / unknown parents, payload absent or partial) are parsed under limits {0,5,4096,64K,1M,default}, capacities {16,4096,65536} and all tolerance subsets while the counting allocator measures every next()/try_recover(): growth and largest request stay within 16*max(B,capacity)+64KiB, an element within the limit is not rejected by the size check, over-limit elements are rejected by a header check, no panic/overflow; a long valid stream is measured over the whole parse (memory creep); in the thorough tier eight curated cases are replayed under valgrind massif and must satisfy the same bound.",
         "constant 16 deliberately loose; limit None not exercised; default-limit acceptance only up to 64 MiB", "DESIGN.md §5 C17"),
 "C20": ("exploration", "runtime monitor: TagIteratorAsync driven by a scripted AsyncRead on a single-threaded executor, differential against the blocking iterator; starvation classified by replaying the schedule through a gated blocking source",
         "For each input and buffered set the async iterator (next() loop and Stream adapter) is driven with many delivery schedules (all partitions of inputs <= 8/10 bytes, k-byte, 1-byte, random, Pending every k-th poll — awaited, or abandoned (future dropped) and retried —, inputs across the 64 KiB transfer buffer) and compared item by item and offset by offset with the blocking iterator; schedules where the inner iterator would see EOF before the producer is done — decided by replaying the reads the adapter really made — are the open known finding C20/starved-read, all others must agree; a source that fails at the k-th read must surface as ReadError carrying the error after a prefix of the blocking items; behind an undecodable payload the sequence of items and errors goes on exactly as in the blocking iterator, through next() and through the stream.",
         "inputs with declarations above 16 MiB are skipped (the adapter cannot change the 4 GB default limit)", "DESIGN.md §5 C20"),
 "C04": ("exploration", "runtime monitor: differential executions of the real iterator over scripted Read sources (short-read schedules, capacities, poisoned buffer tails, temporary EOFs) against the whole-slice parse",
         "The same bytes and configuration are parsed from a slice (baseline) and through scripted sources that vary the initial capacity (0..>len), the partition of the input into read() results (all 2^(n-1) partitions for inputs <= 9/12 bytes, random beyond), the garbage written behind delivered bytes, and — with EOF closing disabled — temporary Ok(0) reads at subsets of tag boundaries; (item, offset) sequences and the first error with all fields must be identical.",
         "one open known finding: a pause while a buffered (Full) master is being collected (known_findings.json C04/pause/inside-buffered-master); inputs <= ~6 KB for the variant matrix", "DESIGN.md §5 C04"),
 "C05": ("exploration", "runtime monitor: catch_unwind + logical step budget (hook H1) + source read budget around every API call on hostile inputs/configurations; I/O fault injection at read indices",
         "Valid, truncated, mutated, adversarial-header, random and mid-document streams are parsed under random configurations (8 tolerance subsets, buffered subsets, capacities incl. tiny, size limits, EOF closing) through scripted short-read sources with random interleavings of next()/try_recover(); every call must return within the step/read budgets without panicking (overflow checks on), item counts stay linear, None is sticky once the source is exhausted, total work stays linear; injected source errors (every kind, Interrupted included) must come back as ReadError carrying kind and message — through the variant's field and through std::error::Error::source() — with the preceding items a prefix of the fault-free parse.",
         "no-hang is decided for loops carrying the H1 tick or touching the source; default 4 GB limit only used with valid documents and without gratuitous try_recover", "DESIGN.md §5 C05"),
 "C11": ("exploration", "runtime monitor: real TagWriter / strict TagIterator verdicts for every (chain of open masters, element) pair of runtime-generated specifications compared with a reference path-pattern matcher",
         "For zoo and random specifications (random forests, trailing and intermediate global placeholders with random bounds) random valid chains are sampled and, for each, EVERY element is offered to a fresh real writer (Ok <=> reference match; rejection must be UnexpectedTag with the id; masters also via the unknown-size option) and rendered by the reference encoder for the real strict reader (emitted <=> reference match against the chain remaining after closing the unknown-size masters it ends; otherwise HierarchyError with the id).",
         "reference semantics = spec.rs::ref_path_match/ref_closes; ambiguous closing-and-valid-child pairs skipped (counted)", "DESIGN.md §5 C11"),
 "C01": ("exploration", "runtime monitor: real TagWriter -> real strict TagIterator round trip over random specifications/trees/options, structural comparison with the generated tree",
         "Random specifications (zoo + generated: ids of 1-8 bytes, depth <=6, global elements) x random conformant trees x boundary-lattice payloads x per-element options (default / width 1-8 / unknown / Full / deprecated call) x masters padded to content sizes 126-128 and 16382-16384 x empty last elements are written by the real writer and read back by the real strict iterator; the item sequence must equal the flattened tree (floats by bits) with no error. Held = all executed round trips agreed.",
         "tree generator conformance is defined by the harness reference path matcher; cases the writer rejects are vacuous (counted); payloads <= 20 KB, trees <= 160 elements", "DESIGN.md §5 C01"),
 "C02": ("exploration", "runtime monitor: read -> re-write -> read differential on writer output, hostile reference encodings and mutants",
         "Byte streams from the real writer, from an independent reference encoder making hostile-but-valid choices (size widths 1-8, unknown-size masters of every all-ones width, zero-padded / zero-length integers, 4-byte floats) and random mutants of both are read by the real strict iterator; every cleanly read stream is written back through the real writer (all calls must succeed) and read again; pass-2 values must equal pass-1 values, and for unmutated reference encodings pass 1 must equal the encoded tree.",
         "streams rejected by pass 1 or not starting at a root element are vacuous (counted); size limit 16 MiB during pass 1", "DESIGN.md §5 C02"),
 "C09": ("exploration", "runtime monitor: paired executions of the real writer on the same tree (Full vs Start/End, deprecated vs option API, short-write schedules) + reference header decode of the output",
         "The same random tree is written in several presentations and the destination byte streams (and per-call destination lengths) are compared byte for byte; the output is walked with the reference header decoder to check that every explicit width is used exactly, unknown-size masters carry all-ones sizes, and ids/payload bytes equal those of the all-default encoding; four partial-write schedules of the destination (1 byte, random limits, Interrupted injections) must deliver identical bytes; one master of a second document is handed over as a Full item (well-formed, with a nested master left open, with a stray End, or as some master that may not be allowed here) with the default option, an 8-byte width, unknown size and through the deprecated call after the same accepted calls: the first three verdicts must agree and the deprecated call must equal the unknown-size option form in verdict, destination lengths and final bytes; masters closed by into_inner()/flush() instead of their trailing Ends must give the same bytes; a leaf or master whose content a requested 1- or 2-byte size field cannot describe must be refused, never written with another width.",
         "Full is only used where every descendant has default options (the master itself may carry any option, unknown size included); writer-rejected trees are vacuous", "DESIGN.md §5 C09"),
 "C10": ("exploration", "runtime monitor: recording destination inspected after every writer call against a shadow stack kept from the call history; reference decoder judges completeness",
         "Random call histories with known- and unknown-size masters interleaved (cut at random points, optional flush) run on the real writer with a recording sink; after every call the monitor checks: content only grows; while a known-size master is open the destination length is unchanged; whenever an element/Full/End call returns Ok with no known-size master open the destination is walked exactly by the reference decoder guided by the partial tree of everything accepted so far; after flush()/into_inner() the destination decodes to the whole tree with all masters closed; the destination is looked at through get_ref() and get_mut() in turn.",
         "sink is append-only by construction (io::Write), so retraction is structurally impossible", "DESIGN.md §5 C10"),
 "C19": ("fault_enumeration", "runtime monitor: fault injection of rejected calls at every position of valid call histories, differential against the history without them",
         "For each generated valid call history every insertion position (all of them in thorough; all for histories <=14 calls in quick) receives failing calls of one of twelve kinds (misplaced leaf/master, size not representable in requested width for leaf and Full, unknown size on a leaf via both APIs, malformed raw id, wrong End — also carrying a width option —, Full with an invalid child at depth 1-3 or with a nested master left open, several in a row, End of a master whose width cannot hold its content, flush() that cannot close an outer master while inner ones are open, a rejected Full followed by one of its own leaves at a place where that leaf is not allowed); per-call results of the original calls, the result of into_inner() and the final destination bytes must equal those of the history without the failing calls.",
         "I/O errors are not injected (outside the property); candidates the writer accepts are vacuous", "DESIGN.md §5 C19"),
 "C15": ("exploration", "runtime monitor: differential oracle against an independent reference vint codec, catch_unwind + overflow trapping, exhaustive small widths",
         "Every public vint function in ebml_iterable::tools is called on real inputs and compared with an independent reference codec: exhaustive for unsigned widths <=3 (quick) / <=4 (thorough, 2^28 values) and signed widths <=3, +-2 lattice around every 2^(7k), 2^(7k-1), 2^(8k), random 64-bit values, all byte slices of length <=2 and every first byte x truncation for lengths 3..9. Held = no disagreement and no panic/overflow trap on everything executed.",
         "trusts refcodec.rs (written from RFC 8794, no shared code); the signed value -2^(7L-1) is a don't-care; values >= 2^56 only checked for no-panic and rejection", "DESIGN.md §5 C15"),
 "C16": ("exploration", "runtime monitor: differential oracle against reference payload decoders + real TagWriter output decoded by a reference header decoder",
         "arr_to_u64/arr_to_i64/arr_to_f64 are executed on all slices of length 0..2 and on boundary/random slices up to length 12 and compared with reference decoders under catch_unwind; single-element documents are written by the real TagWriter for lattice and random 64-bit values and the emitted payload must have the minimal 1/2/4/8 width and decode back bit-for-bit.",
         "trusts refcodec.rs; f32 NaN payload propagation through `as f64` is compared by NaN-ness only", "DESIGN.md §5 C16"),
}
# additions made after the seeded-change waves 3-5 (appended to the level texts; notes replaced where they changed)
ADD = {
 "C01": " Also part of the workload: scale documents (up to 2500 siblings under one master / 700 levels of same-id nesting), unknown size on placeholder masters where what follows ends them unambiguously, giant cases (payload / master content of exactly 2^28-2, 2^28-1, 2^28 bytes compared with the reference layout; two in quick, six in thorough) and one stream longer than 2^32 bytes written through an unknown-size master into a validating sink.",
 "C02": " A quarter of the first passes buffer a random subset of masters (Full items are written back as such); giant cases carry 2^28-2 .. 2^28 bytes in 5-8 byte size fields and the re-written size field must decode to the same known size.",
 "C03": " Case 0 of every run parses a generated stream longer than 2^32 bytes (known-size masters > 4 GiB; offsets, payloads and Ends checked arithmetically).",
 "C04": " Pause runs are also finished by switching end-of-stream closing back on (must equal the closing baseline); the size limit is removed / left at its default on unmutated documents; every reader may have been reconfigured through other setter values first.",
 "C05": " The injected I/O error is transient and the caller goes on (next() x 24, one try_recover()); a quarter of the sources answer Ok(0) once at arbitrary byte positions and deliver data again on the next read.",
 "C06": " A fifth of the parses run live-stream style (closing off, pauses at element boundaries, closing switched on at the end); setters are overwritten before use; scale documents included.",
 "C07": " A third of the random specifications contain masters with placeholders in their path (also placeholder-only paths, nesting in themselves); a fifth of the trees carry elements with ids outside the specification (read with unknown ids tolerated).",
 "C08": " Scale documents (hundreds to thousands of items inside one buffered master, hundreds of nesting levels of a buffered id) are part of the input mix.",
 "C10": " Histories may contain calls the writer rejects (judged against the accepted calls only), continue with a second document after a flush() in the middle, leave a master that can never be closed (flush, flush, End, flush, into_inner), or run against a destination whose own flush() fails once.",
 "C11": " Chain masters with placeholders in their path get unknown size where no later chain master would end them; a mid-document variant renders only the tail of a chain (all unknown-size) followed by an element that ends all of it; on the writer side every master is offered as Start and as an empty Full item, each with default and unknown size.",
 "C12": " The size limit is left at its default, removed (None) or generous.",
 "C13": " The limit probe uses the default limit or an explicit 2^16 / 2^20 and declared sizes from a lattice around every 2^(7k) above it in every width that can hold them; a third of the single-fault parses go through short-read sources; tolerance lists may repeat entries.",
 "C14": " A third of the documents mix unknown-size masters in; one insertion in ten lets the source fail once while try_recover() scans (always-clauses only).",
 "C16": " Untouched zero slices of 2^29 .. 2^29+8 bytes (and 2^32 .. 2^32+8 in thorough) are decoded as well.",
 "C17": " Every 400th case places the hostile header after a recovery 200-400 KB into the stream; raw ids are 2-8 bytes long.",
 "C18": " 19 broken classes (incl. placeholder bounds that differ from the parent's); variants are listed in random order in a third of the well-formed and half of the broken declarations.",
 "C19": " Ten failure kinds; Full children may carry an End of the Full's own id; a quarter of the specifications have placeholder (recursive) masters, which may be the failing Full.",
 "C20": " Window-edge documents put one big element's end at 65536*k-2 .. 65536*k+1 (k <= 5) behind a few small items.",
}
NOTE = {
 "C07": "masters with a placeholder in their path keep unknown size only where what follows ends them under every reading (nothing, a root element, a declared ancestor; no child that looks like a sibling or ancestor); masters directly followed by a global/raw element are not eligible (ambiguity excluded by the statement)",
 "C06": "closings of unknown-size placeholder masters that may contain themselves are a don't-care; behaviour after a source I/O error is not judged (not promised by any property)",
 "C10": "sink is append-only by construction (io::Write), so retraction is structurally impossible; a destination whose write() fails is not exercised (the unchanged writer drops its buffer then; no property covers it)",
}
NOT_YET = {}
ALL = [json.loads(l)["id"] for l in open(os.path.join(V, "properties.jsonl"))]

def main():
    hooks_commits = subprocess.run(["git", "-C", "/repo", "log", "--format=%h %s"], capture_output=True, text=True).stdout.splitlines()
    hook_shas = [l.split()[0] for l in hooks_commits if l.split(" ", 1)[1].startswith("verif hooks")]
    checks = []
    for pid in ALL:
        if pid not in CHECKS:
            continue
        cat, tech, text, note, ref = CHECKS[pid]
        text = text + ADD.get(pid, "")
        note = NOTE.get(pid, note)
        checks.append({
            "property_id": pid,
            "quick_cmd": f"./check {pid} quick",
            "thorough_cmd": f"./check {pid} thorough",
            "evidence_file": f"/verif/evidence/{pid}.json",
            "replay_cmd_template": "./check --replay {path}",
            "engine": "vmon",
            "level_claimed": {"category": cat, "text": text, "design_ref": ref},
            "level_note": note,
            "technique": tech,
        })
    na = [{"property_id": p, "reason": NOT_YET.get(p, "monitor not built yet in this round (work in progress; see DESIGN.md §5 for the planned runtime monitor)")} for p in ALL if p not in CHECKS]
    m = {
        "version": 1,
        "setup_cmd": "./check --setup",
        "hooks": {
            "guard": "cargo feature `verif-hooks` of ebml-iterable (off by default)",
            "enable": "harness/vmon/Cargo.toml depends on ebml-iterable = { path = \"/repo\", features = [\"futures\", \"verif-hooks\"] }",
            "baseline_off_cmd": "cd /repo && cargo test --workspace --no-fail-fast --offline",
            "source_commits": hook_shas,
            "add_only": True,
        },
        "engines": [{"name": "vmon", "path": "/verif/harness/vmon", "serves_properties": [c["property_id"] for c in checks],
                     "kind_free_text": "Rust monitor binary linking the real ebml-iterable from /repo (hooks on, overflow-checks on): workload generators, scripted I/O at the client boundary, independent reference codec, differential and trace oracles, counting allocator; runs cases on 16 threads in a supervised child process"}],
        "checks": checks,
        "not_applicable": na,
        "notes": "Verdicts are three-valued: exit 0 held (KNOWN-FINDING lines for entries of known_findings.json), exit 1 violation (VIOLATION line + replay file), exit 2 inconclusive (build failure, watchdog, coverage floor not reached). VERIF_SEED selects the workload; every case is a deterministic function of (property, tier, seed, case index).",
    }
    json.dump(m, open(os.path.join(V, "MANIFEST.json"), "w"), indent=1)
    print("wrote MANIFEST.json with", len(checks), "checks,", len(na), "not_applicable")

if __name__ == "__main__":
    main()
