#!/usr/bin/env python3
"""Regenerates /verif/MANIFEST.json from the table below (keeps it schema-valid at all times)."""
import json, os, subprocess
V = os.path.dirname(os.path.dirname(os.path.abspath(__file__)))

# id -> (category, technique, text, note, design_ref)
CHECKS = {
 "C04": ("exploration", "runtime monitor: differential executions of the real iterator over scripted Read sources (short-read schedules, capacities, poisoned buffer tails, temporary EOFs) against the whole-slice parse",
         "The same bytes and configuration are parsed from a slice (baseline) and through scripted sources that vary the initial capacity (0..>len), the partition of the input into read() results (all 2^(n-1) partitions for inputs <= 9/12 bytes, random beyond), the garbage written behind delivered bytes, and — with EOF closing disabled — temporary Ok(0) reads at subsets of tag boundaries; (item, offset) sequences and the first error with all fields must be identical.",
         "one open known finding: a pause while a buffered (Full) master is being collected (known_findings.json C04/pause/inside-buffered-master); inputs <= ~6 KB for the variant matrix", "DESIGN.md §5 C04"),
 "C05": ("exploration", "runtime monitor: catch_unwind + logical step budget (hook H1) + source read budget around every API call on hostile inputs/configurations; I/O fault injection at read indices",
         "Valid, truncated, mutated, adversarial-header, random and mid-document streams are parsed under random configurations (8 tolerance subsets, buffered subsets, capacities incl. tiny, size limits, EOF closing) through scripted short-read sources with random interleavings of next()/try_recover(); every call must return within the step/read budgets without panicking (overflow checks on), item counts stay linear, None is sticky once the source is exhausted, total work stays linear; injected source errors must come back as ReadError carrying kind and message with the preceding items a prefix of the fault-free parse.",
         "no-hang is decided for loops carrying the H1 tick or touching the source; default 4 GB limit only used with valid documents and without gratuitous try_recover", "DESIGN.md §5 C05"),
 "C11": ("exploration", "runtime monitor: real TagWriter / strict TagIterator verdicts for every (chain of open masters, element) pair of runtime-generated specifications compared with a reference path-pattern matcher",
         "For zoo and random specifications (random forests, trailing and intermediate global placeholders with random bounds) random valid chains are sampled and, for each, EVERY element is offered to a fresh real writer (Ok <=> reference match; rejection must be UnexpectedTag with the id; masters also via the unknown-size option) and rendered by the reference encoder for the real strict reader (emitted <=> reference match against the chain remaining after closing the unknown-size masters it ends; otherwise HierarchyError with the id).",
         "reference semantics = spec.rs::ref_path_match/ref_closes; ambiguous closing-and-valid-child pairs skipped (counted)", "DESIGN.md §5 C11"),
 "C01": ("exploration", "runtime monitor: real TagWriter -> real strict TagIterator round trip over random specifications/trees/options, structural comparison with the generated tree",
         "Random specifications (zoo + generated: ids of 1-8 bytes, depth <=6, global elements) x random conformant trees x boundary-lattice payloads x per-element options (default / width 1-8 / unknown / Full / deprecated call) x masters padded to content sizes 126-128 and 16382-16384 x empty last elements are written by the real writer and read back by the real strict iterator; the item sequence must equal the flattened tree (floats by bits) with no error. Held = all executed round trips agreed.",
         "tree generator conformance is defined by the harness reference path matcher; cases the writer rejects are vacuous (counted); payloads <= 20 KB, trees <= 160 elements", "DESIGN.md §5 C01"),
 "C02": ("exploration", "runtime monitor: read -> re-write -> read differential on writer output, hostile reference encodings and mutants",
         "Byte streams from the real writer, from an independent reference encoder making hostile-but-valid choices (size widths 1-8, unknown-size masters of every all-ones width, zero-padded / zero-length integers, 4-byte floats) and random mutants of both are read by the real strict iterator; every cleanly read stream is written back through the real writer (all calls must succeed) and read again; pass-2 values must equal pass-1 values, and for unmutated reference encodings pass 1 must equal the encoded tree.",
         "streams rejected by pass 1 or not starting at a root element are vacuous (counted); size limit 16 MiB during pass 1", "DESIGN.md §5 C02"),
 "C09": ("exploration", "runtime monitor: paired executions of the real writer on the same tree (Full vs Start/End, deprecated vs option API, short-write schedules) + reference header decode of the output",
         "The same random tree is written in several presentations and the destination byte streams (and per-call destination lengths) are compared byte for byte; the output is walked with the reference header decoder to check that every explicit width is used exactly, unknown-size masters carry all-ones sizes, and ids/payload bytes equal those of the all-default encoding; four partial-write schedules of the destination (1 byte, random limits, Interrupted injections) must deliver identical bytes.",
         "Full is only used where every descendant has default options; writer-rejected trees are vacuous", "DESIGN.md §5 C09"),
 "C10": ("exploration", "runtime monitor: recording destination inspected after every writer call against a shadow stack kept from the call history; reference decoder judges completeness",
         "Random call histories with known- and unknown-size masters interleaved (cut at random points, optional flush) run on the real writer with a recording sink; after every call the monitor checks: content only grows; while a known-size master is open the destination length is unchanged; whenever an element/Full/End call returns Ok with no known-size master open the destination is walked exactly by the reference decoder guided by the partial tree of everything accepted so far; after flush()/into_inner() the destination decodes to the whole tree with all masters closed.",
         "sink is append-only by construction (io::Write), so retraction is structurally impossible; unknown-size masters are never presented as Full", "DESIGN.md §5 C10"),
 "C19": ("fault_enumeration", "runtime monitor: fault injection of rejected calls at every position of valid call histories, differential against the history without them",
         "For each generated valid call history every insertion position (all of them in thorough; all for histories <=14 calls in quick) receives failing calls of one of nine kinds (misplaced leaf/master, size not representable in requested width for leaf and Full, unknown size on a leaf via both APIs, malformed raw id, wrong End, Full with an invalid child at depth 1-3, several in a row); per-call results of the original calls, the result of into_inner() and the final destination bytes must equal those of the history without the failing calls.",
         "I/O errors are not injected (outside the property); candidates the writer accepts are vacuous", "DESIGN.md §5 C19"),
 "C15": ("exploration", "runtime monitor: differential oracle against an independent reference vint codec, catch_unwind + overflow trapping, exhaustive small widths",
         "Every public vint function in ebml_iterable::tools is called on real inputs and compared with an independent reference codec: exhaustive for unsigned widths <=2 (quick) / <=4 (thorough, 2^28 values) and signed widths <=2 / <=3, +-2 lattice around every 2^(7k), 2^(7k-1), 2^(8k), random 64-bit values, all byte slices of length <=2 and every first byte x truncation for lengths 3..9. Held = no disagreement and no panic/overflow trap on everything executed.",
         "trusts refcodec.rs (written from RFC 8794, no shared code); the signed value -2^(7L-1) is a don't-care; values >= 2^56 only checked for no-panic and rejection", "DESIGN.md §5 C15"),
 "C16": ("exploration", "runtime monitor: differential oracle against reference payload decoders + real TagWriter output decoded by a reference header decoder",
         "arr_to_u64/arr_to_i64/arr_to_f64 are executed on all slices of length 0..2 and on boundary/random slices up to length 12 and compared with reference decoders under catch_unwind; single-element documents are written by the real TagWriter for lattice and random 64-bit values and the emitted payload must have the minimal 1/2/4/8 width and decode back bit-for-bit.",
         "trusts refcodec.rs; f32 NaN payload propagation through `as f64` is compared by NaN-ness only", "DESIGN.md §5 C16"),
}
NOT_YET = {}
ALL = [json.loads(l)["id"] for l in open(os.path.join(V, "properties.jsonl"))]

def main():
    hooks_commits = subprocess.run(["git", "-C", "/repo", "log", "--format=%h %s"], capture_output=True, text=True).stdout.splitlines()
    hook_shas = [l.split()[0] for l in hooks_commits if l.split(" ", 1)[1].startswith("verif hooks")]
    checks = []
    for pid in ALL:
        if pid not in CHECKS:
            continue
        cat, tech, text, note, ref = CHECKS[pid]
        checks.append({
            "property_id": pid,
            "quick_cmd": f"./check {pid} quick",
            "thorough_cmd": f"./check {pid} thorough",
            "evidence_file": f"/verif/evidence/{pid}.json",
            "replay_cmd_template": "./check --replay {path}",
            "engine": "vmon",
            "level_claimed": {"category": cat, "text": text, "design_ref": ref},
            "level_note": note,
            "technique": tech,
        })
    na = [{"property_id": p, "reason": NOT_YET.get(p, "monitor not built yet in this round (work in progress; see DESIGN.md §5 for the planned runtime monitor)")} for p in ALL if p not in CHECKS]
    m = {
        "version": 1,
        "setup_cmd": "./check --setup",
        "hooks": {
            "guard": "cargo feature `verif-hooks` of ebml-iterable (off by default)",
            "enable": "harness/vmon/Cargo.toml depends on ebml-iterable = { path = \"/repo\", features = [\"futures\", \"verif-hooks\"] }",
            "baseline_off_cmd": "cd /repo && cargo test --workspace --no-fail-fast --offline",
            "source_commits": hook_shas,
            "add_only": True,
        },
        "engines": [{"name": "vmon", "path": "/verif/harness/vmon", "serves_properties": [c["property_id"] for c in checks],
                     "kind_free_text": "Rust monitor binary linking the real ebml-iterable from /repo (hooks on, overflow-checks on): workload generators, scripted I/O at the client boundary, independent reference codec, differential and trace oracles, counting allocator; runs cases on 16 threads in a supervised child process"}],
        "checks": checks,
        "not_applicable": na,
        "notes": "Verdicts are three-valued: exit 0 held (KNOWN-FINDING lines for entries of known_findings.json), exit 1 violation (VIOLATION line + replay file), exit 2 inconclusive (build failure, watchdog, coverage floor not reached). VERIF_SEED selects the workload; every case is a deterministic function of (property, tier, seed, case index).",
    }
    json.dump(m, open(os.path.join(V, "MANIFEST.json"), "w"), indent=1)
    print("wrote MANIFEST.json with", len(checks), "checks,", len(na), "not_applicable")

if __name__ == "__main__":
    main()
