#!/usr/bin/env python3
"""Run the repository's suite and all twenty quick checks against /repo@<base> + <patch>, in a scratch worktree and a
copy of /verif that are bind-mounted over /repo and /verif inside a private mount namespace (so the checks run exactly
as registered, and /repo and /verif themselves are untouched).

usage: eval_patch.py <slot> <patch.diff> [--base <rev>] [--tier quick|thorough] [--ids C01,C02] [--seed N] [--verif-rev <rev>]
Prints one JSON object: {patch_applies, tests_ok, checks: {id: {exit, line}}}.  Used for the property-preserving
refactorings (DESIGN §15: no check may fire) and for ad-hoc experiments.
"""
import json, os, subprocess, sys

def sh(cmd, cwd=None, timeout=7200):
    p = subprocess.run(cmd, shell=True, cwd=cwd, capture_output=True, text=True, timeout=timeout, executable="/bin/bash")
    return p.returncode, p.stdout + p.stderr

def main():
    if sys.argv[1] == "--inside":
        return inside(sys.argv[2:])
    slot, patch = sys.argv[1], os.path.abspath(sys.argv[2])
    a = sys.argv[3:]
    opt = lambda k, d: a[a.index(k) + 1] if k in a else d
    base, tier, ids, seed = opt("--base", "HEAD"), opt("--tier", "quick"), opt("--ids", ",".join(f"C{n:02d}" for n in range(1, 21))), opt("--seed", "1")
    verif_rev = opt("--verif-rev", None)
    w = f"/tmp/ev/{slot}"
    os.makedirs(w, exist_ok=True)
    sh(f"git -C /repo worktree remove --force {w}/repo; git -C /repo worktree prune")
    rc, o = sh(f"git -C /repo worktree add -q --detach {w}/repo {base}")
    if rc != 0:
        print(json.dumps({"error": o[-400:]})); return
    # the checks as COMMITTED (default HEAD of /verif; --verif-rev <rev> for an earlier state, "WORKTREE" for the working
    # tree as it is): edits in progress in /verif never leak into an evaluation
    if verif_rev == "WORKTREE":
        sh(f"rsync -a --delete --exclude .git --exclude seeded --exclude replays --exclude mutation --exclude harness/target --exclude harness/gen_specs --exclude harness/gen_reject /verif/ {w}/verif/")
    else:
        sh(f"mkdir -p {w}/verif && find {w}/verif -mindepth 1 -maxdepth 1 ! -name harness -exec rm -rf {{}} + ; find {w}/verif/harness -mindepth 1 -maxdepth 1 ! -name target -exec rm -rf {{}} + 2>/dev/null; git -C /verif archive {verif_rev or 'HEAD'} | tar -x -C {w}/verif --exclude=seeded")
    if not os.path.exists(f"{w}/verif/harness/target"):
        sh(f"rsync -a /verif/harness/target {w}/verif/harness/")
    res = {"patch": patch, "base": base, "tier": tier}
    rc, o = sh(f"git apply {patch}", cwd=f"{w}/repo")
    res["patch_applies"] = rc == 0
    if rc != 0:
        res["apply_error"] = o[-400:]
        print(json.dumps(res, indent=1)); return
    me = os.path.abspath(__file__)
    sh(f"cp {me} {w}/eval_patch.py")
    cmd = f"mount --bind {w}/repo /repo && mount --bind {w}/verif /verif && exec python3 {w}/eval_patch.py --inside {tier} {ids} {seed}"
    p = subprocess.run(["unshare", "-m", "bash", "-c", cmd], capture_output=True, text=True)
    try:
        res.update(json.loads(p.stdout[p.stdout.index("{"):]))
    except Exception:
        res["inside_error"] = (p.stdout + p.stderr)[-800:]
    sh(f"git -C /repo worktree remove --force {w}/repo; git -C /repo worktree prune")
    print(json.dumps(res, indent=1))

def inside(a):
    tier, ids, seed = a[0], a[1].split(","), a[2]
    out = {}
    rc, o = sh("cargo test --offline 2>&1 | grep -E 'test result|FAILED|^error' | head -20", cwd="/repo", timeout=900)
    out["tests_ok"] = "FAILED" not in o and "error" not in o and o.count("test result: ok") >= 5
    out["tests_passed"] = sum(int(l.split("ok.")[1].split("passed")[0]) for l in o.splitlines() if "test result: ok." in l)
    if not out["tests_ok"]:
        out["tests_tail"] = o[-500:]
    rc, o = sh("./check --setup", cwd="/verif", timeout=1800)
    if rc != 0:
        out["harness_build_failed"] = o[-800:]
        print(json.dumps(out)); return
    out["checks"] = {}
    for i in ids:
        rc, o = sh(f"VERIF_SEED={seed} ./check {i} {tier}", cwd="/verif", timeout=7200)
        sig = [l.strip()[:300] for l in o.splitlines() if l.startswith("VIOLATION") or " signature " in l or l.startswith("INCONCLUSIVE")]
        out["checks"][i] = {"exit": rc, "lines": sig[:8]}
    out["fired"] = [i for i, v in out["checks"].items() if v["exit"] != 0]
    print(json.dumps(out))

if __name__ == "__main__":
    main()
