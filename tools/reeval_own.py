#!/usr/bin/env python3
"""Re-evaluate every kept seeded change against the quick tier of its own check, with the checks as committed now.

usage: reeval_own.py <lanes> [ID-x ...]
For each /verif/seeded/<ID>-<x>/: tools/eval_patch.py (scratch worktree + committed /verif in a mount namespace) with
--ids <ID>; the verdict goes into meta.json under "own_check_at_final_commit".  Patches that no longer apply to /repo's
HEAD are reported, not guessed at.
"""
import json, os, subprocess, sys, glob
from concurrent.futures import ThreadPoolExecutor

def one(args):
    lane, d = args
    name = os.path.basename(d.rstrip('/'))
    pid = name.split('-')[0]
    p = subprocess.run(f"python3 /verif/tools/eval_patch.py re{lane} {d}/patch.diff --ids {pid}", shell=True, capture_output=True, text=True)
    try:
        j = json.loads(p.stdout[p.stdout.index('{'):])
    except Exception:
        return name, {"error": (p.stdout + p.stderr)[-300:]}
    if not j.get("patch_applies"):
        return name, {"patch_applies": False}
    c = j.get("checks", {}).get(pid, {})
    return name, {"patch_applies": True, "suite_passes": j.get("tests_ok"), "exit": c.get("exit"), "first_signature": (c.get("lines") or [""])[0][:300]}

def main():
    lanes = int(sys.argv[1])
    names = sys.argv[2:]
    dirs = sorted(glob.glob('/verif/seeded/C*-*/'))
    if names:
        dirs = [d for d in dirs if os.path.basename(d.rstrip('/')) in names]
    commit = subprocess.check_output("git -C /verif rev-parse --short HEAD", shell=True, text=True).strip()
    repo = subprocess.check_output("git -C /repo rev-parse --short HEAD", shell=True, text=True).strip()
    # lanes are worked through by one thread each so that a slot is never used twice at a time
    chunks = [dirs[i::lanes] for i in range(lanes)]
    def lane_run(i):
        out = []
        for d in chunks[i]:
            out.append(one((i, d)))
            n, r = out[-1]
            mp = os.path.join('/verif/seeded', n, 'meta.json')
            m = json.load(open(mp))
            r2 = dict(r); r2["verif_commit"] = commit; r2["repo_commit"] = repo
            m["own_check_at_final_commit"] = r2
            json.dump(m, open(mp, 'w'), indent=1)
            print(n, r.get("exit"), r.get("first_signature", r)[:120] if isinstance(r.get("first_signature"), str) else r, flush=True)
        return out
    with ThreadPoolExecutor(lanes) as ex:
        list(ex.map(lane_run, range(lanes)))

if __name__ == "__main__":
    main()
