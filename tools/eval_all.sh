#!/bin/bash
# eval_all.sh <ID> [extra args]: evaluate /tmp/seeded_out/<ID>/{a,b}
ID=$1; shift
for x in ${XS:-a b}; do
  d=/tmp/seeded_out/$ID/$x
  [ -f $d/patch.diff ] || continue
  python3 /verif/tools/eval_seeded.py $ID $d "$@" > $d/eval.json.txt 2>&1
  python3 - "$d" <<'PY'
import sys,json
d=sys.argv[1]
t=open(d+'/eval.json.txt').read()
try:
    j=json.loads(t[t.index('{'):])
except Exception as e:
    print(d,'EVAL ERROR',t[-300:]); sys.exit()
json.dump(j,open(d+'/eval.json','w'),indent=1)
print(d, 'valid=',j.get('candidate_valid'), 'own_quick=',j.get('caught_by_own_check_quick'),'own_thorough=',j.get('caught_by_own_check_thorough'),'any=',j.get('caught_by_any'))
for k,v in j.get('checks',{}).items():
    if v['exit']!=0: print('    ',k,'exit',v['exit'],(v['lines'] or [''])[0][:200])
PY
done
