#!/usr/bin/env python3
"""Copy evaluated seeded changes from /tmp/seeded_out/<ID>/<x>/ into /verif/seeded/<ID>-<x>/ (patch.diff, demo, meta.json)."""
import json, os, shutil, sys, glob
out = []
for d in sorted(glob.glob('/tmp/seeded_out/C*/[a-z]')):
    pid = d.split('/')[-2]; x = d.split('/')[-1]
    ev = os.path.join(d, 'eval.json')
    if not os.path.exists(ev):
        # evaluation files are kept out of the sub-agents' sight while later waves are being written
        ev = f'/tmp/seeded_evals/{pid}/{x}/eval.json'
    if not os.path.exists(ev) or not os.path.exists(os.path.join(d, 'patch.diff')):
        continue
    j = json.load(open(ev))
    if not j.get('candidate_valid') and not os.path.exists(os.path.join(d, 'demo_should_not_compile.rs')):
        print('skip (not confirmed):', d); continue
    dst = f'/verif/seeded/{pid}-{x}'
    os.makedirs(dst, exist_ok=True)
    shutil.copy(os.path.join(d, 'patch.diff'), dst)
    for f in ('demo.rs', 'demo_should_not_compile.rs'):
        if os.path.exists(os.path.join(d, f)): shutil.copy(os.path.join(d, f), dst)
    meta_txt = open(os.path.join(d, 'meta.txt')).read() if os.path.exists(os.path.join(d, 'meta.txt')) else ''
    caught = {k: v for k, v in j.get('checks', {}).items() if v.get('exit') == 1}
    meta = {
        'breaks_property': pid,
        'what_it_needs_to_manifest': meta_txt.strip(),
        'confirmed': {
            'patch_applies_to_clean_checkout': j.get('patch_applies'),
            'repository_suite_passes_with_patch': j.get('suite_passes_with_patch'),
            'demo_passes_on_unchanged_tree': j.get('demo_passes_unchanged'),
            'demo_fails_with_patch': j.get('demo_fails_with_patch'),
            'how': 'tools/eval_seeded.py: scratch worktree of /repo for the demo and the suite; the checks run in a private mount namespace in which a scratch worktree with the patch and a copy of the committed /verif are bind-mounted over /repo and /verif (tools/eval_patch.py)',
        },
        'detected_by': {k: {'tier': v['tier'], 'first_signature': (v['lines'] or [''])[0].strip()[:300]} for k, v in caught.items()},
        'caught_by_own_check_quick': j.get('caught_by_own_check_quick'),
        'caught_by_own_check_thorough': j.get('caught_by_own_check_thorough'),
    }
    before = os.path.join(os.path.dirname(ev), 'eval.before.json')
    if os.path.exists(before):
        b = json.load(open(before))
        meta['first_evaluation_before_strengthening'] = {'caught_by_own_check_quick': b.get('caught_by_own_check_quick'), 'caught_by_own_check_thorough': b.get('caught_by_own_check_thorough'), 'caught_by': sorted(k for k, v in b.get('checks', {}).items() if v.get('exit') == 1)}
    json.dump(meta, open(os.path.join(dst, 'meta.json'), 'w'), indent=1)
    out.append((pid, x, sorted(caught.keys())))
for o in out: print(o)
