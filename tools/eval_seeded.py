#!/usr/bin/env python3
"""Evaluate a seeded breaking change against the checks.

usage: eval_seeded.py <property-id> <candidate-dir> [--all] [--thorough]

candidate-dir holds patch.diff and demo.rs (+ meta.txt). Steps:
 1. in a scratch worktree of /repo (created under /tmp, removed afterwards): the demo passes on the unchanged
    tree, the patch applies, the repository's own suite still passes, the demo fails with the patch;
 2. in /repo itself: apply the patch, run ./check <ID> quick (and thorough with --thorough or when quick misses;
    all other checks too with --all), then undo the patch (git checkout -- .).
Prints a JSON summary on the last line.
"""
import json, os, shutil, subprocess, sys, time

def sh(cmd, cwd=None, timeout=3600):
    p = subprocess.run(cmd, shell=True, cwd=cwd, capture_output=True, text=True, timeout=timeout)
    return p.returncode, p.stdout + p.stderr

def main():
    pid, cand = sys.argv[1], os.path.abspath(sys.argv[2])
    run_all = "--all" in sys.argv
    force_thorough = "--thorough" in sys.argv
    patch = os.path.join(cand, "patch.diff")
    demo = os.path.join(cand, "demo.rs")
    inverted = False  # demo_should_not_compile.rs: must fail to compile unchanged, compile with the patch
    if not os.path.exists(demo) and os.path.exists(os.path.join(cand, "demo_should_not_compile.rs")):
        demo = os.path.join(cand, "demo_should_not_compile.rs")
        inverted = True
    feat = {"C20": "--features futures", "C18": "--features derive-spec"}.get(pid, "")
    res = {"property": pid, "candidate": cand}
    # --revalidate-from <eval.json>: take the four validation verdicts from an earlier evaluation of the same patch
    # (the patch and the demonstration have not changed; only the checks have) and only re-run the checks
    prev = None
    if "--revalidate-from" in sys.argv:
        prev = json.load(open(sys.argv[sys.argv.index("--revalidate-from") + 1]))
    wt = f"/tmp/wt_eval_{os.getpid()}"
    if prev is not None:
        for k in ("demo_passes_unchanged", "patch_applies", "suite_passes_with_patch", "suite_tests_ok_lines", "demo_fails_with_patch"):
            if k in prev:
                res[k] = prev[k]
        res["validation_taken_from_earlier_evaluation"] = True
        rc, out = sh(f"git -C /repo apply --check {patch}")
        res["patch_applies"] = (rc == 0)
    else:
        sh(f"git -C /repo worktree add -q --detach {wt} HEAD")
    try:
        if prev is not None:
            raise StopIteration
        shutil.copy(demo, os.path.join(wt, "tests/seed_demo.rs"))
        rc, out = sh(f"cargo test --offline {feat} --test seed_demo 2>&1 | tail -15", cwd=wt)
        res["demo_passes_unchanged"] = ("test result: ok" in out) if not inverted else ("error" in out and "test result: ok" not in out)
        if not res["demo_passes_unchanged"]:
            res["demo_unchanged_tail"] = out[-800:]
        rc, out = sh(f"git apply {patch}", cwd=wt)
        res["patch_applies"] = (rc == 0)
        if rc != 0:
            res["patch_error"] = out[-400:]
        else:
            os.rename(os.path.join(wt, "tests/seed_demo.rs"), os.path.join(wt, "seed_demo.rs.off"))
            rc, out = sh("cargo test --workspace --offline 2>&1 | grep -E 'test result|FAILED|^error' | head -20", cwd=wt)
            res["suite_passes_with_patch"] = ("FAILED" not in out and "error" not in out and out.count("test result: ok") >= 5)
            res["suite_tests_ok_lines"] = out.count("test result: ok")
            os.rename(os.path.join(wt, "seed_demo.rs.off"), os.path.join(wt, "tests/seed_demo.rs"))
            rc, out = sh(f"cargo test --offline {feat} --test seed_demo 2>&1 | tail -15", cwd=wt)
            res["demo_fails_with_patch"] = ("FAILED" in out or "panicked" in out or "timed out" in out) if not inverted else ("test result: ok" in out)
            if feat:
                rc, out = sh(f"cargo test --offline {feat} 2>&1 | grep -E 'test result|FAILED|^error' | head -20", cwd=wt) if False else (0, "")
    except StopIteration:
        pass
    finally:
        if prev is None:
            sh(f"git -C /repo worktree remove --force {wt}")
    ok = res.get("demo_passes_unchanged") and res.get("patch_applies") and res.get("suite_passes_with_patch") and res.get("demo_fails_with_patch")
    res["candidate_valid"] = bool(ok)
    if not res.get("patch_applies"):
        print(json.dumps(res))
        return
    # ---- against the checks: a scratch worktree + a copy of /verif, bind-mounted over /repo and /verif in a private
    # mount namespace (tools/eval_patch.py), so /repo and /verif themselves stay untouched and several evaluations can run
    # side by side. (Earlier waves applied the patch to /repo itself and undid it afterwards; same commands, same paths.)
    slot = os.environ.get("EVAL_SLOT", f"seed_{os.getpid()}")
    here = os.path.dirname(os.path.abspath(__file__))
    ids = [pid]
    if run_all:
        ids += [f"C{n:02d}" for n in range(1, 21) if f"C{n:02d}" != pid]
    detected = {}
    rc, out = sh(f"python3 {here}/eval_patch.py {slot} {patch} --ids {','.join(ids)}", timeout=14400)
    try:
        ej = json.loads(out[out.index("{"):])
    except Exception:
        ej = {"error": out[-500:]}
    if "checks" not in ej:
        res["eval_patch_error"] = ej
        print(json.dumps(res, indent=1))
        return
    for i, v in ej["checks"].items():
        detected[i] = {"tier": "quick", "exit": v["exit"], "lines": v["lines"][:6]}
    if detected.get(pid, {}).get("exit") != 1 or force_thorough:
        rc, out = sh(f"python3 {here}/eval_patch.py {slot} {patch} --ids {pid} --tier thorough", timeout=14400)
        try:
            ej2 = json.loads(out[out.index("{"):])
            v = ej2["checks"][pid]
            detected[pid + "-thorough"] = {"tier": "thorough", "exit": v["exit"], "lines": v["lines"][:6]}
        except Exception:
            detected[pid + "-thorough"] = {"tier": "thorough", "exit": 2, "lines": [out[-300:]]}
    res["checks"] = detected
    res["caught_by_own_check_quick"] = detected.get(pid, {}).get("exit") == 1
    res["caught_by_own_check_thorough"] = detected.get(pid + "-thorough", {}).get("exit") == 1
    res["caught_by_any"] = any(v.get("exit") == 1 for v in detected.values())
    print(json.dumps(res, indent=1))

if __name__ == "__main__":
    main()
