#!/usr/bin/env python3
"""Generate first-order source mutants of austinleroy/ebml-iterable (text level, one token or one statement each).

usage: mutgen.py [--repo /repo] > mutants.json

The mutants are the *workload for the monitors' own validation* (DESIGN §14): each is applied to a scratch
worktree, must still compile and pass the repository's own test suite, and is then shown to the twenty quick
checks.  A mutant that survives everything is either equivalent / outside the twenty properties (argued in
mutation/survivors.md) or a hole in a workload (closed by generalising the workload).

Operators (every occurrence is one mutant; string literals, comments, test modules and verif hooks are skipped):
  ROR  relational operator replaced by its neighbour / negation   (<  <=  >  >=  ==  !=)
  AOR  arithmetic / bit operator replaced                          (+ - * / << >> | & += -=)
  LCR  && <-> ||
  CON  integer literal +1 / -1 (decimal and hex)
  NEG  condition of an if / while negated
  SDL  single-line statement deleted
  MTH  method / keyword swapped (min/max, any/all, first/last, front/back, is_some/is_none, rev() dropped, true/false,
       matches! negated, take_while/skip_while, push_back/push_front, pop_back/pop_front, saturating/wrapping ...)
"""
import json, os, re, sys

FILES = [
    "src/tag_iterator.rs", "src/tag_writer.rs", "src/tools.rs", "src/spec_util.rs", "src/tag_iterator_util.rs",
    "src/nonblocking.rs", "specification/src/lib.rs",
    "specification-derive/src/attr.rs", "specification-derive/src/pathing.rs", "specification-derive/src/easy_ebml.rs",
    "specification-derive/src/ast.rs",
]

ROR = [(" <= ", " < "), (" < ", " <= "), (" >= ", " > "), (" > ", " >= "), (" == ", " != "), (" != ", " == "),
       (" < ", " > "), (" > ", " < ")]
AOR = [(" + ", " - "), (" - ", " + "), (" * ", " + "), (" / ", " * "), (" << ", " >> "), (" >> ", " << "),
       (" | ", " & "), (" & ", " | "), (" += ", " -= "), (" -= ", " += "), (" % ", " / ")]
LCR = [(" && ", " || "), (" || ", " && ")]
MTH = [(".min(", ".max("), (".max(", ".min("), (".rev()", ""), (".is_some()", ".is_none()"), (".is_none()", ".is_some()"),
       (".any(", ".all("), (".all(", ".any("), (".first()", ".last()"), (".last()", ".first()"),
       (".front()", ".back()"), (".back()", ".front()"), ("push_back(", "push_front("), ("push_front(", "push_back("),
       ("pop_back()", "pop_front()"), ("pop_front()", "pop_back()"), ("matches!(", "!matches!("),
       (".take_while(", ".skip_while("), (".skip_while(", ".take_while("), ("saturating_sub(", "wrapping_sub("),
       (".is_ok()", ".is_err()"), (".is_err()", ".is_ok()"), (".is_empty()", ".is_empty() == false"),
       (".starts_with(", ".ends_with("), (".position(", ".rposition("), (".is_known()", ".is_known() == false"),
       (".unwrap_or_default()", ".unwrap_or(1)"), (".iter().rev()", ".iter()"), ("leading_zeros()", "leading_ones()"),
       (".checked_sub(", ".checked_add("), (".to_be_bytes()", ".to_le_bytes()"), ("from_be_bytes(", "from_le_bytes("),
       (".insert(0, ", ".push("), (".extend(", ".extend_from_slice(&[]); drop("),
       (".truncate(", ".truncate(1 + "), (".drain(..", ".drain(1.."), (".skip(1)", ""), (".take(", ".skip("),
       (".contains(", ".contains(&0) == !"), ]
WORDS = [("true", "false"), ("false", "true"), ("break", "continue")]


def code_part(line):
    """index where a // comment starts (outside strings), or len(line)"""
    in_s = False
    i = 0
    while i < len(line):
        c = line[i]
        if in_s:
            if c == "\\":
                i += 2
                continue
            if c == '"':
                in_s = False
        else:
            if c == '"':
                in_s = True
            elif c == "/" and line[i:i + 2] == "//":
                return i
        i += 1
    return len(line)


def string_spans(line):
    spans = []
    in_s = False
    start = 0
    i = 0
    while i < len(line):
        c = line[i]
        if in_s:
            if c == "\\":
                i += 2
                continue
            if c == '"':
                spans.append((start, i + 1))
                in_s = False
        elif c == '"':
            in_s = True
            start = i
        i += 1
    return spans


def inside(spans, pos):
    return any(a <= pos < b for a, b in spans)


def mutants_of_line(line):
    """yield (op, col, length, replacement, description) for one physical line (without its newline)"""
    end = code_part(line)
    code = line[:end]
    stripped = code.strip()
    if not stripped or stripped.startswith("#[") or stripped.startswith("use ") or "verif" in code:
        return
    spans = string_spans(code)
    for opname, table in (("ROR", ROR), ("AOR", AOR), ("LCR", LCR), ("MTH", MTH)):
        for old, new in table:
            start = 0
            while True:
                p = code.find(old, start)
                if p < 0:
                    break
                start = p + 1
                if inside(spans, p):
                    continue
                if old in (" < ", " > ") and (code[p - 1:p] in "-=" or code[p + 1:p + 3] in ("<<", ">>")):
                    continue
                yield opname, p, len(old), new, f"{old.strip()} -> {new.strip() or '(dropped)'}"
    for old, new in WORDS:
        for m in re.finditer(r"\b" + old + r"\b", code):
            if not inside(spans, m.start()):
                yield "MTH", m.start(), len(old), new, f"{old} -> {new}"
    # integer literals
    for m in re.finditer(r"(?<![\w.])(0x[0-9a-fA-F_]+|\d[\d_]*)(?![\w.]|\s*\.\.)", code):
        if inside(spans, m.start()):
            continue
        txt = m.group(1)
        try:
            v = int(txt.replace("_", ""), 16) if txt.startswith("0x") else int(txt.replace("_", ""))
        except ValueError:
            continue
        outs = [v + 1] + ([v - 1] if v > 0 else [])
        for o in outs:
            rep = hex(o) if txt.startswith("0x") else str(o)
            yield "CON", m.start(), len(txt), rep, f"{txt} -> {rep}"
    # negated conditions
    m = re.match(r"^(\s*(?:\}\s*else\s+)?(?:if|while)\s+)(?!let\b)(.+?)(\s*\{\s*)$", code)
    if m and m.group(2).count("(") == m.group(2).count(")") and "{" not in m.group(2):
        yield "NEG", m.start(2), len(m.group(2)), "!(" + m.group(2) + ")", "condition negated"
    # statement deletion
    if (stripped.endswith(";") and not re.match(r"^(let|use|pub|const|type|return|static|fn|impl|struct|enum|mod|\}|\)|\])", stripped)
            and stripped.count("(") == stripped.count(")") and stripped.count("{") == stripped.count("}")
            and stripped.count("[") == stripped.count("]")):
        ind = len(code) - len(code.lstrip())
        yield "SDL", ind, len(code.rstrip()) - ind, "", "statement deleted"


def main():
    repo = "/repo"
    if "--repo" in sys.argv:
        repo = sys.argv[sys.argv.index("--repo") + 1]
    out = []
    for f in FILES:
        raw = open(os.path.join(repo, f), newline="").read()
        lines = raw.split("\n")
        in_block_comment = False
        for ln, line in enumerate(lines):
            body = line[:-1] if line.endswith("\r") else line
            s = body.strip()
            if s.startswith("#[cfg(test)]"):
                break
            if s.startswith("/*"):
                in_block_comment = True
            if in_block_comment:
                if "*/" in s:
                    in_block_comment = False
                continue
            if s.startswith("//"):
                continue
            seen = set()
            for op, col, length, rep, desc in mutants_of_line(body):
                key = (col, length, rep)
                if key in seen:
                    continue
                seen.add(key)
                out.append({"file": f, "line": ln + 1, "col": col, "len": length, "rep": rep, "op": op, "desc": desc,
                            "orig": body.strip()[:160]})
    for i, m in enumerate(out):
        m["id"] = f"M{i:04d}"
    json.dump(out, sys.stdout, indent=0)


if __name__ == "__main__":
    main()
