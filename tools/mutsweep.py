#!/usr/bin/env python3
"""Mutation sweep: show every mutant of tools/mutgen.py to the repository's own tests and then to the quick checks.

usage: mutsweep.py driver <mutants.json> <workdir> <nworkers> [--only M0001,M0002] [--sample-con K]
       mutsweep.py worker <mutants.json> <workdir> <k> <nworkers>      (started by the driver inside a mount namespace)
       mutsweep.py summary <mutants.json> <workdir>

Every worker owns a scratch git worktree of /repo and a copy of /verif under <workdir>/w<k>/ and runs inside its own
mount namespace in which those two directories are bind-mounted over /repo and /verif, so the checks run exactly as
registered (same paths, same commands) while /repo and /verif themselves are never touched.  Results are appended to
<workdir>/results/<k>.jsonl (resumable).  Nothing here is a registered check; the sweep measures the checks.
"""
import json, os, signal, subprocess, sys, time

ALL = [f"C{n:02d}" for n in range(1, 21)]
ORDER = {
    "src/tools.rs": ["C15", "C16", "C01", "C02", "C03", "C05", "C09", "C19"],
    "src/tag_writer.rs": ["C01", "C09", "C10", "C19", "C11", "C16", "C02", "C07"],
    "src/tag_iterator.rs": ["C05", "C04", "C03", "C12", "C01", "C08", "C06", "C14", "C13", "C17", "C07", "C11", "C02", "C20"],
    "src/spec_util.rs": ["C11", "C07", "C06", "C01", "C13", "C19"],
    "src/tag_iterator_util.rs": ["C01", "C13", "C07", "C17", "C02", "C12"],
    "src/nonblocking.rs": ["C20"],
    "specification/src/lib.rs": ["C08", "C01", "C18"],
}
ONLY = {"src/nonblocking.rs": ["C20"]}


def order_for(f):
    if f.startswith("specification-derive/"):
        return ["C18"]
    if f in ONLY:
        return ONLY[f]
    first = ORDER.get(f, [])
    return first + [c for c in ALL if c not in first]


def sh(cmd, cwd=None, timeout=900):
    t0 = time.time()
    p = subprocess.Popen(f"ulimit -v 25000000; {cmd}", shell=True, cwd=cwd, stdout=subprocess.PIPE, stderr=subprocess.STDOUT, text=True,
                         executable="/bin/bash", start_new_session=True)
    try:
        o, _ = p.communicate(timeout=timeout)
        return p.returncode, o, time.time() - t0
    except subprocess.TimeoutExpired:
        try:
            os.killpg(p.pid, signal.SIGKILL)
        except Exception:
            pass
        p.wait()
        return 124, "TIMEOUT", time.time() - t0


def apply(m, raw):
    lines = raw.split("\n")
    line = lines[m["line"] - 1]
    lines[m["line"] - 1] = line[:m["col"]] + m["rep"] + line[m["col"] + m["len"]:]
    return "\n".join(lines)


def worker(mutfile, workdir, k, n):
    muts = json.load(open(mutfile))
    respath = os.path.join(workdir, "results", f"{k}.jsonl")
    done = set()
    if os.path.exists(respath):
        for l in open(respath):
            try:
                done.add(json.loads(l)["id"])
            except Exception:
                pass
    mine = [m for i, m in enumerate(muts) if i % n == k and m["id"] not in done]
    out = open(respath, "a")
    for m in mine:
        path = os.path.join("/repo", m["file"])
        raw = open(path, newline="").read()
        res = dict(m)
        try:
            open(path, "w", newline="").write(apply(m, raw))
            derive = m["file"].startswith("specification-derive/")
            rc, o, dt = sh("cargo test --offline 2>&1 | grep -E 'test result|FAILED|^error|panicked' | head -30", cwd="/repo", timeout=400)
            res["tests_s"] = round(dt, 1)
            if "error" in o and "test result" not in o:
                res["status"] = "uncompilable"
            elif rc == 124 or "FAILED" in o or o.count("test result: ok") < 5:
                res["status"] = "killed_by_tests"
                res["tests_tail"] = o[-300:]
            else:
                rc, o, dt = sh("./check --setup", cwd="/verif", timeout=900)
                res["build_s"] = round(dt, 1)
                if rc != 0:
                    res["status"] = "uncompilable"
                    res["build_tail"] = o[-300:]
                else:
                    res["status"] = "survived"
                    res["checks"] = {}
                    for cid in order_for(m["file"]):
                        rc, o, dt = sh(f"./check {cid} quick", cwd="/verif", timeout=1200)
                        sig = [l for l in o.splitlines() if l.startswith("VIOLATION") or "signature" in l or l.startswith("INCONCLUSIVE")]
                        res["checks"][cid] = {"exit": rc, "s": round(dt, 1), "line": (sig[0][:240] if sig else "")}
                        if rc == 1:
                            res["status"] = "killed_by_check"
                            res["killed_by"] = cid
                            break
        finally:
            open(path, "w", newline="").write(raw)
        out.write(json.dumps(res) + "\n")
        out.flush()


def driver(mutfile, workdir, n, only=None):
    os.makedirs(os.path.join(workdir, "results"), exist_ok=True)
    procs = []
    me = os.path.abspath(__file__)
    for k in range(n):
        w = os.path.join(workdir, f"w{k}")
        if not os.path.exists(os.path.join(w, "repo")):
            os.makedirs(w, exist_ok=True)
            subprocess.run(f"git -C /repo worktree add -q --detach {w}/repo HEAD", shell=True, check=True)
            subprocess.run(f"rsync -a --exclude .git --exclude seeded --exclude replays --exclude mutation /verif/ {w}/verif/", shell=True, check=True)
        # the worker script and the mutant list are read from outside the bind mounts
        subprocess.run(f"cp {me} {workdir}/mutsweep.py; cp {mutfile} {workdir}/mutants.json", shell=True, check=True)
        cmd = (f"mount --bind {w}/repo /repo && mount --bind {w}/verif /verif && "
               f"exec python3 {workdir}/mutsweep.py worker {workdir}/mutants.json {workdir} {k} {n}")
        procs.append(subprocess.Popen(["unshare", "-m", "bash", "-c", cmd], stdout=open(f"{w}/log", "a"), stderr=subprocess.STDOUT))
    for p in procs:
        p.wait()


def summary(mutfile, workdir):
    muts = {m["id"]: m for m in json.load(open(mutfile))}
    res = {}
    rd = os.path.join(workdir, "results")
    for f in sorted(os.listdir(rd)):
        for l in open(os.path.join(rd, f)):
            try:
                r = json.loads(l)
                res[r["id"]] = r
            except Exception:
                pass
    import collections
    st = collections.Counter(r["status"] for r in res.values())
    print(f"mutants {len(muts)}  evaluated {len(res)}  {dict(st)}")
    byfile = collections.defaultdict(collections.Counter)
    for r in res.values():
        byfile[r["file"]][r["status"]] += 1
    for f, c in sorted(byfile.items()):
        print(f"  {f:42s} {dict(c)}")
    kb = collections.Counter(r.get("killed_by") for r in res.values() if r["status"] == "killed_by_check")
    print("  first killing check:", dict(sorted(kb.items())))
    for r in sorted(res.values(), key=lambda r: r["id"]):
        if r["status"] == "survived":
            inc = [c for c, v in r.get("checks", {}).items() if v["exit"] not in (0, 1)]
            print(f"SURVIVOR {r['id']} {r['file']}:{r['line']} {r['op']} [{r['desc']}] | {r['orig'][:110]}" + (f"  inconclusive={inc}" if inc else ""))


if __name__ == "__main__":
    if sys.argv[1] == "worker":
        worker(sys.argv[2], sys.argv[3], int(sys.argv[4]), int(sys.argv[5]))
    elif sys.argv[1] == "driver":
        driver(sys.argv[2], sys.argv[3], int(sys.argv[4]))
    elif sys.argv[1] == "summary":
        summary(sys.argv[2], sys.argv[3])
