#!/usr/bin/env python3
"""Write /verif/mutation/{results.json,survivors.md} from a finished (or stopped) sweep: mutreport.py <mutants.json> <workdir>"""
import json, os, sys, glob, collections, re
muts = json.load(open(sys.argv[1]))
res = {}
for f in glob.glob(os.path.join(sys.argv[2], 'results', '*.jsonl')):
    for l in open(f):
        try:
            r = json.loads(l); res[r['id']] = r
        except Exception:
            pass
# triage of the survivors (by hand, see DESIGN §14.2)
EQ = "equivalent under the twenty properties: "
TRIAGE = {
 'M0011': EQ + "fill value of a buffer whose unread part is never looked at", 'M0058': EQ + "fill value of a buffer whose unread part is never looked at",
 'M0012': EQ + "minimum buffer size only grows", 'M0112': EQ + "look-ahead only grows", 'M0088': EQ + "second look-ahead request (the 16-byte one precedes it)", 'M0089': EQ + "second look-ahead request", 'M0090': EQ + "second look-ahead request; differs only for a one-shot Ok(0) inside a header, which C04 does not quantify over (pauses at tag boundaries)",
 'M0015': "HOLE, closed: default limit lowered to 4 + 10^9; C13 (d'') now asks that sizes up to the limit are admitted", 'M0017': "HOLE, closed: default limit lowered to 3*10^9 (C13 d'')", 'M0019': "HOLE, closed: default limit lowered to 4*999^3 (C13 d'')",
 'M0024': EQ + "initial value of last_emitted_tag_offset (never observable before the first item)", 'M0031': EQ + "try_recover gives up one byte earlier at the very end of the input, where no tag can start",
 'M0047': EQ + "current_offset() before the first fill is never used", 'M0055': EQ + "re-allocation to the same size", 'M0061': EQ + "an extra refill attempt when exactly enough bytes are buffered",
 'M0073': EQ + "position is already 0 at the first fill", 'M0091': EQ + "the refill loop always leaves the position at 0 when it reports end of input", 'M0100': EQ + "a 0x00 byte where an id should start is a declared don't-care (C03)",
 'M0123': EQ + "a 9-byte numeric element is an error either way; no property names the kind", 'M0143': EQ + "suffix arithmetic only differs when the open masters are a non-empty suffix of a purely named path, impossible for a consistent specification",
 'M0145': EQ + "data_start of an implied (unknown-size) ancestor is never used", 'M0151': EQ + "HierarchyError.current_parent_id is not pinned (C11 pins found_tag_id)", 'M0176': EQ + "unreachable defensive panic", 'M0179': EQ + "unreachable defensive panic",
 'M0202': "inside the open known finding C04/pause/inside-buffered-master (closing disabled, input ends inside a buffered master); items after the first error are not judged", 'M0205': EQ + "an Err is always the last entry of the queue",
 'M0223': EQ + "defensive arm of roll_up_children (children are always well nested)", 'M0227': EQ + "defensive arm of roll_up_children", 'M0229': EQ + "defensive arm of roll_up_children", 'M0234': EQ + "dead loop in roll_up_children", 'M0235': EQ + "dead loop in roll_up_children", 'M0238': EQ + "dead loop in roll_up_children",
 'M0246': EQ + "third tuple field is ignored by validate_tag_path", 'M0263': EQ + "assertion on API misuse (width 0 / 9)", 'M0264': EQ + "assertion on API misuse", 'M0267': EQ + "assertion on API misuse", 'M0269': EQ + "assertion on API misuse", 'M0271': EQ + "assertion on API misuse", 'M0611': EQ + "assertion that cannot fail",
 'M0297': "out of reach: default-width arms for content sizes >= 2^35-1 (32 GB of real data)", 'M0300': "out of reach: sizes >= 2^42-1", 'M0306': "out of reach: sizes >= 2^49-1", 'M0307': "out of reach: sizes >= 2^49-1",
 'M0322': EQ + "width entry of an unknown-size master is never read", 'M0403': EQ + "byte order of a one-byte integer", 'M0406': EQ + "byte order of a one-byte integer", 'M0452': EQ + "byte order of a one-byte integer", 'M0455': EQ + "byte order of a one-byte integer",
 'M0496': "HOLE, closed: a Utf8 element too long for a requested 1-byte size field was written with a wider field instead of being refused; C09 (c') / (c'') now ask that a width is honoured or the call refused",
 'M0563': EQ + "UnexpectedClosingTag.expected_id is not pinned", 'M0813': EQ + "the value -2^(7L-1) is a declared don't-care of C15", 'M0842': EQ + "the value -2^(7L-1) is a declared don't-care of C15", 'M0927': EQ + "the dropped mask bit is shifted out for every length",
 'M1124': EQ + "default buffer length", 'M1123': EQ + "default buffer length (1088 bytes)", 'M0286': EQ + "size 16383 written with a 4-byte instead of a 3-byte field (no property pins the default width)", 'M0298': "out of reach: sizes >= 2^35-1", 'M0302': "out of reach: sizes >= 2^42-1", 'M0808': EQ + "the range check before the loop guarantees that width 8 fits", 'M1126': EQ + "default buffer length", 'M0615': EQ + "assertion that cannot fail", 'M0912': EQ + "the extra mask bit is shifted out for every length", 'M1135': EQ + "larger async transfer buffer", 'M1137': EQ + "larger async transfer buffer", 'M1142': EQ + "second half of an error message", 'M1154': EQ + "the parent is validated on its own turn anyway",
}
out = {'mutants_generated': len(json.load(open(sys.argv[1].replace('mut_sel', 'mutants')))) if os.path.exists(sys.argv[1].replace('mut_sel', 'mutants')) else None,
       'mutants_scheduled': len(muts), 'evaluated': len(res), 'by_status': dict(collections.Counter(r['status'] for r in res.values())),
       'first_killing_check': dict(sorted(collections.Counter(r.get('killed_by') for r in res.values() if r['status'] == 'killed_by_check').items())),
       'by_file': {f: dict(collections.Counter(r['status'] for r in res.values() if r['file'] == f)) for f in sorted(set(r['file'] for r in res.values()))},
       'results': [{k: r.get(k) for k in ('id', 'file', 'line', 'op', 'desc', 'orig', 'status', 'killed_by')} | ({'signature': (re.search(r'signature (\S+)', r['checks'][r['killed_by']]['line']) or [None, r['checks'][r['killed_by']]['line'][:80]])[1]} if r.get('killed_by') else {}) for r in sorted(res.values(), key=lambda r: r['id'])]}
json.dump(out, open('/verif/mutation/results.json', 'w'), indent=0)
surv = [r for r in sorted(res.values(), key=lambda r: r['id']) if r['status'] == 'survived']
with open('/verif/mutation/survivors.md', 'w') as f:
    f.write("# Mutants that compile, pass the repository's 36 tests and were not flagged by any quick check at the time of the sweep\n\n")
    f.write("(sweep against the checks as committed at the start of this session's work, i.e. before the additions it led to; triage by hand, see DESIGN §14.2)\n\n")
    f.write("| mutant | where | change | verdict |\n|---|---|---|---|\n")
    for r in surv:
        inc = [c for c, v in r.get('checks', {}).items() if v['exit'] not in (0, 1)]
        f.write(f"| {r['id']} | {r['file']}:{r['line']} `{r['orig'][:70].replace('|', '¦')}` | {r['op']} {r['desc'].replace('|', '¦')} | {TRIAGE.get(r['id'], 'NOT TRIAGED')}{' (one check inconclusive during the sweep: ' + ','.join(inc) + ')' if inc else ''} |\n")
print(json.dumps({k: out[k] for k in ('mutants_scheduled', 'evaluated', 'by_status', 'first_killing_check')}, indent=1))
print('untriaged:', [r['id'] for r in surv if r['id'] not in TRIAGE])
