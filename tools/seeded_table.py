#!/usr/bin/env python3
"""Print the markdown table of kept seeded changes and which checks detect them (from seeded/*/meta.json)."""
import json, glob, os, re
rows = []
for d in sorted(glob.glob('/verif/seeded/*')):
    m = json.load(open(os.path.join(d, 'meta.json')))
    name = os.path.basename(d)
    txt = m.get('what_it_needs_to_manifest', '')
    first = ' '.join(txt.split())[:170]
    det = m.get('detected_by', {})
    own = m['breaks_property']
    others = sorted(k for k in det if not k.startswith(own))
    tier = 'quick' if m.get('caught_by_own_check_quick') else ('thorough' if m.get('caught_by_own_check_thorough') else 'MISSED')
    sig = det.get(own, det.get(own + '-thorough', {})).get('first_signature', '')
    msig = re.search(r'signature (\S+):', sig)
    rows.append(f"| {name} | {first} | {own}: {tier}{' (`' + msig.group(1)[:70] + '`)' if msig else ''} | {', '.join(others) if others else '–'} |")
print("| seeded change | what it is / needs (from the author's notes) | own check | also caught by |")
print("|---|---|---|---|")
print('\n'.join(rows))
