//! `#[path]`-includes the sources of /repo/specification-derive (everything except its proc-macro entry points).
#![allow(dead_code)]

#[path = "/repo/specification-derive/src/ast.rs"]
mod ast;
#[path = "/repo/specification-derive/src/attr.rs"]
mod attr;
#[path = "/repo/specification-derive/src/easy_ebml.rs"]
mod easy_ebml;
#[path = "/repo/specification-derive/src/pathing.rs"]
mod pathing;

use proc_macro2::TokenStream;
use syn::ItemEnum;

/// `#[ebml_specification]` applied to an enum given as source text.
pub fn expand_attribute_form(src: &str) -> Result<TokenStream, String> {
    let mut item: ItemEnum = syn::parse_str(src).map_err(|e| format!("parse: {}", e))?;
    attr::impl_ebml_specification(&mut item).map_err(|e| e.to_string())
}

/// `easy_ebml! { ... }` given as source text: lowered to the attribute form, then expanded like rustc would
/// (the lowering emits `#[ebml_iterable::specs::ebml_specification] enum ...`).
pub fn expand_easy_form(src: &str) -> Result<(TokenStream, String), String> {
    let easy: easy_ebml::EasyEBML = syn::parse_str(src).map_err(|e| format!("parse: {}", e))?;
    let lowered = easy.implement().map_err(|e| e.to_string())?;
    let lowered_text = lowered.to_string();
    let mut item: ItemEnum = syn::parse2(lowered).map_err(|e| format!("re-parse of lowered easy_ebml: {}", e))?;
    let before = item.attrs.len();
    item.attrs.retain(|a| !a.path.segments.last().map(|s| s.ident == "ebml_specification").unwrap_or(false));
    if item.attrs.len() + 1 != before {
        return Err("lowered easy_ebml does not carry exactly one #[ebml_specification] attribute".into());
    }
    let out = attr::impl_ebml_specification(&mut item).map_err(|e| e.to_string())?;
    Ok((out, lowered_text))
}
