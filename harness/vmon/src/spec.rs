//! Table-driven runtime specification (`DynTag`), the harness-side `Item` representation, and
//! the independent reference path semantics (`ref_path_match`, `ref_closes`).
//!
//! `EbmlSpecification` only has associated functions, so a "runtime generated specification"
//! is one type (`DynTag`) consulting a thread-local table that the monitor installs per case.

use crate::json::{hex_short, J};
use ebml_iterable::specs::{EbmlSpecification, EbmlTag, Master, PathPart, TagDataType};
use std::cell::RefCell;
use std::collections::HashMap;
use std::rc::Rc;

#[derive(Clone, Copy, PartialEq, Eq, Debug, Hash, PartialOrd, Ord)]
pub enum Ty {
    Master,
    U,
    I,
    F,
    S,
    B,
}

impl Ty {
    pub fn name(self) -> &'static str {
        match self {
            Ty::Master => "Master",
            Ty::U => "UnsignedInt",
            Ty::I => "Integer",
            Ty::F => "Float",
            Ty::S => "Utf8",
            Ty::B => "Binary",
        }
    }
    pub fn to_repo(self) -> TagDataType {
        match self {
            Ty::Master => TagDataType::Master,
            Ty::U => TagDataType::UnsignedInt,
            Ty::I => TagDataType::Integer,
            Ty::F => TagDataType::Float,
            Ty::S => TagDataType::Utf8,
            Ty::B => TagDataType::Binary,
        }
    }
    pub const LEAVES: [Ty; 5] = [Ty::U, Ty::I, Ty::F, Ty::S, Ty::B];
}

#[derive(Clone, Copy, PartialEq, Eq, Debug, Hash)]
pub enum PP {
    Id(u64),
    Glob(Option<u64>, Option<u64>),
}

#[derive(Clone, Debug)]
pub struct Elem {
    pub id: u64,
    pub ty: Ty,
    pub path: Vec<PP>,
    pub name: String,
}

impl Elem {
    pub fn is_global(&self) -> bool {
        self.path.iter().any(|p| matches!(p, PP::Glob(..)))
    }
    pub fn is_root(&self) -> bool {
        self.path.is_empty()
    }
}

#[derive(Clone, Debug)]
pub struct Spec {
    pub name: String,
    pub elems: Vec<Elem>,
}

pub const VOID_ID: u64 = 0xEC;
pub const CRC_ID: u64 = 0xBF;

impl Spec {
    pub fn get(&self, id: u64) -> Option<&Elem> {
        self.elems.iter().find(|e| e.id == id)
    }
    pub fn ty(&self, id: u64) -> Option<Ty> {
        self.get(id).map(|e| e.ty)
    }
    pub fn is_master(&self, id: u64) -> bool {
        self.ty(id) == Some(Ty::Master)
    }
    pub fn masters(&self) -> Vec<u64> {
        self.elems.iter().filter(|e| e.ty == Ty::Master).map(|e| e.id).collect()
    }
    pub fn path_str(&self, e: &Elem) -> String {
        let mut s = String::new();
        for p in &e.path {
            match p {
                PP::Id(i) => s.push_str(&self.get(*i).map(|x| x.name.clone()).unwrap_or(format!("{:x}", i))),
                PP::Glob(a, b) => s.push_str(&format!(
                    "({}-{})",
                    a.map(|x| x.to_string()).unwrap_or_default(),
                    b.map(|x| x.to_string()).unwrap_or_default()
                )),
            }
            s.push('/');
        }
        s.push_str(&e.name);
        s
    }
    pub fn to_json(&self) -> J {
        J::obj().set("name", J::s(self.name.clone())).set(
            "elements",
            J::Arr(
                self.elems
                    .iter()
                    .map(|e| J::s(format!("{} : {} = 0x{:x}", self.path_str(e), e.ty.name(), e.id)))
                    .collect(),
            ),
        )
    }
    /// Elements (ids) whose declared path matches `chain` (reference semantics).
    pub fn allowed_under(&self, chain: &[u64]) -> Vec<&Elem> {
        self.elems.iter().filter(|e| ref_path_match(&e.path, chain)).collect()
    }

    /// Install this spec as the current thread's table for `DynTag`.
    pub fn install(&self) {
        let mut map = HashMap::new();
        for e in &self.elems {
            let pp: Vec<PathPart> = e
                .path
                .iter()
                .map(|p| match p {
                    PP::Id(i) => PathPart::Id(*i),
                    PP::Glob(a, b) => PathPart::Global((*a, *b)),
                })
                .collect();
            map.insert(e.id, (e.ty, intern_path(pp)));
        }
        CUR.with(|c| *c.borrow_mut() = Rc::new(map));
    }
}

thread_local! {
    static CUR: RefCell<Rc<HashMap<u64, (Ty, &'static [PathPart])>>> = RefCell::new(Rc::new(HashMap::new()));
    static INTERN: RefCell<HashMap<Vec<PathPart>, &'static [PathPart]>> = RefCell::new(HashMap::new());
}

fn intern_path(p: Vec<PathPart>) -> &'static [PathPart] {
    if p.is_empty() {
        return &[];
    }
    INTERN.with(|m| {
        let mut m = m.borrow_mut();
        if let Some(x) = m.get(&p) {
            return *x;
        }
        let leaked: &'static [PathPart] = Box::leak(p.clone().into_boxed_slice());
        m.insert(p, leaked);
        leaked
    })
}

fn cur_ty(id: u64) -> Option<Ty> {
    CUR.with(|c| c.borrow().get(&id).map(|e| e.0))
}

// ------------------------------------------------------------------ DynTag

#[derive(Clone, Debug, PartialEq)]
pub enum DVal {
    M(Master<DynTag>),
    U(u64),
    I(i64),
    F(f64),
    S(String),
    B(Vec<u8>),
    Raw(Vec<u8>),
}

#[derive(Clone, Debug, PartialEq)]
pub struct DynTag {
    pub id: u64,
    pub val: DVal,
}

impl EbmlSpecification<DynTag> for DynTag {
    fn get_tag_data_type(id: u64) -> Option<TagDataType> {
        cur_ty(id).map(|t| t.to_repo())
    }
    fn get_path_by_id(id: u64) -> &'static [PathPart] {
        CUR.with(|c| c.borrow().get(&id).map(|e| e.1).unwrap_or(&[]))
    }
    fn get_unsigned_int_tag(id: u64, data: u64) -> Option<DynTag> {
        (cur_ty(id) == Some(Ty::U)).then(|| DynTag { id, val: DVal::U(data) })
    }
    fn get_signed_int_tag(id: u64, data: i64) -> Option<DynTag> {
        (cur_ty(id) == Some(Ty::I)).then(|| DynTag { id, val: DVal::I(data) })
    }
    fn get_utf8_tag(id: u64, data: String) -> Option<DynTag> {
        (cur_ty(id) == Some(Ty::S)).then(|| DynTag { id, val: DVal::S(data) })
    }
    fn get_binary_tag(id: u64, data: &[u8]) -> Option<DynTag> {
        (cur_ty(id) == Some(Ty::B)).then(|| DynTag { id, val: DVal::B(data.to_vec()) })
    }
    fn get_float_tag(id: u64, data: f64) -> Option<DynTag> {
        (cur_ty(id) == Some(Ty::F)).then(|| DynTag { id, val: DVal::F(data) })
    }
    fn get_master_tag(id: u64, data: Master<DynTag>) -> Option<DynTag> {
        (cur_ty(id) == Some(Ty::Master)).then(|| DynTag { id, val: DVal::M(data) })
    }
    fn get_raw_tag(id: u64, data: &[u8]) -> DynTag {
        DynTag { id, val: DVal::Raw(data.to_vec()) }
    }
}

impl EbmlTag<DynTag> for DynTag {
    fn get_id(&self) -> u64 {
        self.id
    }
    fn as_unsigned_int(&self) -> Option<&u64> {
        match &self.val {
            DVal::U(v) => Some(v),
            _ => None,
        }
    }
    fn as_signed_int(&self) -> Option<&i64> {
        match &self.val {
            DVal::I(v) => Some(v),
            _ => None,
        }
    }
    fn as_utf8(&self) -> Option<&str> {
        match &self.val {
            DVal::S(v) => Some(v),
            _ => None,
        }
    }
    fn as_binary(&self) -> Option<&[u8]> {
        match &self.val {
            DVal::B(v) | DVal::Raw(v) => Some(v),
            _ => None,
        }
    }
    fn as_float(&self) -> Option<&f64> {
        match &self.val {
            DVal::F(v) => Some(v),
            _ => None,
        }
    }
    fn as_master(&self) -> Option<&Master<DynTag>> {
        match &self.val {
            DVal::M(v) => Some(v),
            _ => None,
        }
    }
}

// ------------------------------------------------------------------ Item

/// Harness-side value of a tag: hashable, floats by bit pattern.
#[derive(Clone, Debug, PartialEq, Eq, Hash)]
pub enum Item {
    Start(u64),
    End(u64),
    Full(u64, Vec<Item>),
    U(u64, u64),
    I(u64, i64),
    F(u64, u64),
    S(u64, String),
    B(u64, Vec<u8>),
    Raw(u64, Vec<u8>),
}

impl Item {
    pub fn id(&self) -> u64 {
        match self {
            Item::Start(i) | Item::End(i) | Item::Full(i, _) | Item::U(i, _) | Item::I(i, _) | Item::F(i, _) | Item::S(i, _) | Item::B(i, _) | Item::Raw(i, _) => *i,
        }
    }
    pub fn is_end(&self) -> bool {
        matches!(self, Item::End(_))
    }
    pub fn is_start(&self) -> bool {
        matches!(self, Item::Start(_))
    }
    pub fn is_master(&self) -> bool {
        matches!(self, Item::Start(_) | Item::End(_) | Item::Full(..))
    }
    pub fn is_raw(&self) -> bool {
        matches!(self, Item::Raw(..))
    }
    pub fn from_tag(t: &DynTag) -> Item {
        match &t.val {
            DVal::M(Master::Start) => Item::Start(t.id),
            DVal::M(Master::End) => Item::End(t.id),
            DVal::M(Master::Full(c)) => Item::Full(t.id, c.iter().map(Item::from_tag).collect()),
            DVal::U(v) => Item::U(t.id, *v),
            DVal::I(v) => Item::I(t.id, *v),
            DVal::F(v) => Item::F(t.id, v.to_bits()),
            DVal::S(v) => Item::S(t.id, v.clone()),
            DVal::B(v) => Item::B(t.id, v.clone()),
            DVal::Raw(v) => Item::Raw(t.id, v.clone()),
        }
    }
    pub fn to_tag(&self) -> DynTag {
        let (id, val) = match self {
            Item::Start(i) => (*i, DVal::M(Master::Start)),
            Item::End(i) => (*i, DVal::M(Master::End)),
            Item::Full(i, c) => (*i, DVal::M(Master::Full(c.iter().map(|x| x.to_tag()).collect()))),
            Item::U(i, v) => (*i, DVal::U(*v)),
            Item::I(i, v) => (*i, DVal::I(*v)),
            Item::F(i, v) => (*i, DVal::F(f64::from_bits(*v))),
            Item::S(i, v) => (*i, DVal::S(v.clone())),
            Item::B(i, v) => (*i, DVal::B(v.clone())),
            Item::Raw(i, v) => (*i, DVal::Raw(v.clone())),
        };
        DynTag { id, val }
    }
    /// Replace each Full by Start, children (recursively), End.
    pub fn flatten_into(&self, out: &mut Vec<Item>) {
        match self {
            Item::Full(i, c) => {
                out.push(Item::Start(*i));
                for x in c {
                    x.flatten_into(out);
                }
                out.push(Item::End(*i));
            }
            x => out.push(x.clone()),
        }
    }
    pub fn short(&self) -> String {
        match self {
            Item::Start(i) => format!("Start({:x})", i),
            Item::End(i) => format!("End({:x})", i),
            Item::Full(i, c) => format!("Full({:x},[{}])", i, c.iter().map(|x| x.short()).collect::<Vec<_>>().join(",")),
            Item::U(i, v) => format!("U({:x},{})", i, v),
            Item::I(i, v) => format!("I({:x},{})", i, v),
            Item::F(i, v) => format!("F({:x},bits={:016x})", i, v),
            Item::S(i, v) => {
                if v.len() <= 24 {
                    format!("S({:x},{:?})", i, v)
                } else {
                    format!("S({:x},len={})", i, v.len())
                }
            }
            Item::B(i, v) => format!("B({:x},{})", i, hex_short(v, 12)),
            Item::Raw(i, v) => format!("Raw({:x},{})", i, hex_short(v, 12)),
        }
    }
}

pub fn flatten(items: &[Item]) -> Vec<Item> {
    let mut out = Vec::new();
    for i in items {
        i.flatten_into(&mut out);
    }
    out
}

pub fn items_json(items: &[Item], max: usize) -> J {
    let mut v: Vec<J> = items.iter().take(max).map(|i| J::s(i.short())).collect();
    if items.len() > max {
        v.push(J::s(format!("...(+{} items)", items.len() - max)));
    }
    J::Arr(v)
}

// ------------------------------------------------------------------ reference path semantics

/// Declared path read as a pattern over the chain of open masters (outermost first):
/// `Id(x)` matches exactly master `x`; `Glob(min,max)` matches between min and max arbitrary
/// masters (None = 0 / unbounded); the whole chain must be consumed.
pub fn ref_path_match(path: &[PP], chain: &[u64]) -> bool {
    match path.first() {
        None => chain.is_empty(),
        Some(PP::Id(x)) => !chain.is_empty() && chain[0] == *x && ref_path_match(&path[1..], &chain[1..]),
        Some(PP::Glob(min, max)) => {
            let lo = min.unwrap_or(0) as usize;
            let hi = max.map(|m| m as usize).unwrap_or(usize::MAX).min(chain.len());
            let mut k = lo;
            while k <= hi {
                if ref_path_match(&path[1..], &chain[k..]) {
                    return true;
                }
                k += 1;
            }
            false
        }
    }
}

/// Does the element `next_id` close an open unknown-size master `open_id`?
/// (sibling = same declared path; new instance of an ancestor; root element; global elements never close)
pub fn ref_closes(spec: &Spec, open_id: u64, next_id: u64) -> bool {
    let (open, next) = match (spec.get(open_id), spec.get(next_id)) {
        (Some(a), Some(b)) => (a, b),
        _ => return false,
    };
    if next.is_global() {
        return false;
    }
    if next.is_root() {
        return true;
    }
    if open.path == next.path {
        return true;
    }
    open.path.iter().any(|p| matches!(p, PP::Id(i) if *i == next_id))
}

/// Is `id` a well-formed EBML element id (byte length matches the length marker)?
pub fn ref_id_wellformed(id: u64) -> bool {
    if id == 0 {
        return false;
    }
    let bits = 64 - id.leading_zeros() as usize;
    let len = (bits + 7) / 8;
    let top = (id >> (8 * (len - 1))) as u8;
    top.leading_zeros() as usize == len - 1
}
