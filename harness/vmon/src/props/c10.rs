//! C10 — writer streams: flushed bytes are final, and complete whenever no known-size master is open.

use super::common::*;
use crate::gen;
use crate::io::ScriptedWrite;
use crate::json::{hex_short, J};
use crate::prng::{hash_str, mix};
use crate::refcodec::{flat, layout_guided, Node, SizeOpt};
use crate::runner::{Case, PropDef};
use crate::spec::Item;
use crate::wr::{calls_from_tree, calls_json, do_call, finish, WCall, WRes};
use ebml_iterable::TagWriter;

pub static DEF: PropDef = PropDef {
    id: "C10",
    level: "exploration",
    rule: "each case: a random conformant tree with known- and unknown-size masters interleaved (and random Full collapsing) is turned into a call history (with write_raw() calls of unknown ids inserted at random positions in a third of the cases), truncated at a random point (so masters may be left open) and optionally ended with flush(); the destination is a recording sink and is inspected after every call. The monitor keeps its own shadow stack of open masters from the call history. Checks: (1) at every element/Full/End call that returned Ok while the shadow stack holds no known-size master, the destination content must be walked completely and exactly by the reference header decoder guided by the partial tree of tags accepted so far (open unknown-size masters included); (2) while a known-size master is open the destination length does not change; (3) after flush()/into_inner() the destination decodes to the whole tree with every master closed and nothing left over; (4) destination content only ever grows. distinct = (tree fingerprint, sequence of shadow-stack shapes (K/U strings) at observation points) plus each shape sequence by itself; non-trivial iff some observation point had depth >= 2 or the history was cut with masters open.",
    assumptions: &["one ordinary history in eight runs against a destination whose own flush() fails once (its write() calls took every byte): the writer call during which that happens returns a WriteError and may count as written or not (both readings are accepted at every later observation), a failing flush() is simply repeated; in no reading may a byte reach the destination twice", "a quarter of the ordinary histories continue after a flush() in the middle (which closes all open masters) with a second document under the same specification; the flush is an observation point like any other", "a fifth of the ordinary histories additionally contain one or two calls that the writer rejects (generated as in C19); rejected calls are not part of the tags written so far; all observations continue after them and judge the destination against the accepted calls only", "every eighth case is an unclosable-master history: a known-size master is given size width 1 and a Void child of 127-199 marker bytes, the history is cut before its End; flush(), flush(), End, flush(), into_inner() follow: the destination stays append-only, a failing call delivers none of the marker bytes, and any flush()/into_inner() that reports Ok must leave a destination that decodes to everything accepted", "the sink implements only io::Write, so bytes handed over cannot be retracted physically; the check is on completeness and timing"],
    cases_quick: 200_000,
    cases_thorough: 2_000_000,
    floors: &[("complete_prefix_checks", 5000), ("held_back_checks", 3000), ("distinct_nontrivial", 200), ("final_decodes", 2000)],
    exhaustive_note: None,
    run,
};

/// Partial tree (all masters "closed" for the walker) of what calls[0..n] have written.
fn partial_tree(calls: &[WCall]) -> Vec<Node> {
    let mut stack: Vec<Node> = Vec::new();
    let mut roots: Vec<Node> = Vec::new();
    fn attach(stack: &mut Vec<Node>, roots: &mut Vec<Node>, n: Node) {
        if let Some(top) = stack.last_mut() {
            top.children.push(n);
        } else {
            roots.push(n);
        }
    }
    fn from_full(it: &Item, opt: SizeOpt) -> Node {
        match it {
            Item::Full(id, ch) => Node { item: Item::Start(*id), children: ch.iter().map(|c| from_full(c, SizeOpt::Default)).collect(), opt },
            other => Node { item: other.clone(), children: vec![], opt },
        }
    }
    for c in calls {
        match c {
            WCall::Write(Item::Start(id), opt) => stack.push(Node { item: Item::Start(*id), children: vec![], opt: *opt }),
            WCall::DeprecatedUnknown(Item::Start(id)) => stack.push(Node { item: Item::Start(*id), children: vec![], opt: SizeOpt::Unknown }),
            WCall::Write(Item::End(_), _) => {
                if let Some(n) = stack.pop() {
                    attach(&mut stack, &mut roots, n);
                }
            }
            WCall::Write(it, opt) => {
                let n = from_full(it, *opt);
                attach(&mut stack, &mut roots, n);
            }
            WCall::WriteRaw(id, data) => {
                let n = Node::leaf(Item::Raw(*id, data.clone()));
                attach(&mut stack, &mut roots, n);
            }
            WCall::Flush => {
                // flush() closes every open master
                while let Some(n) = stack.pop() {
                    attach(&mut stack, &mut roots, n);
                }
            }
            _ => {}
        }
    }
    while let Some(n) = stack.pop() {
        attach(&mut stack, &mut roots, n);
    }
    roots
}

/// true iff some master started with an explicit size width is still open before calls[pos]
fn explicit_width_open_at(calls: &[WCall], pos: usize) -> bool {
    let mut stack: Vec<bool> = Vec::new();
    for call in &calls[..pos] {
        match call {
            WCall::Write(Item::Start(_), opt) => stack.push(matches!(opt, SizeOpt::Width(_))),
            WCall::DeprecatedUnknown(_) => stack.push(false),
            WCall::Write(Item::End(_), _) => {
                stack.pop();
            }
            _ => {}
        }
    }
    stack.iter().any(|w| *w)
}

/// The destination must decode to the accepted calls — or, when one call ended in a WriteError caused by the injected
/// destination-flush fault, to the accepted calls without that one (both readings of "accepted" are allowed).
fn decode_either(dest: &[u8], accepted: &[WCall], alt: &Option<Vec<WCall>>) -> Result<usize, String> {
    match layout_guided(dest, &partial_tree(accepted)) {
        Ok(l) => Ok(l.len()),
        Err(e) => {
            if let Some(alt) = alt {
                let mut a2 = alt.clone();
                if accepted.len() > alt.len() {
                    a2.extend(accepted[alt.len() + 1..].iter().cloned());
                }
                if let Ok(l) = layout_guided(dest, &partial_tree(&a2)) {
                    return Ok(l.len());
                }
            }
            Err(e)
        }
    }
}

/// A master started with an explicit size width that its content outgrows can never be closed. flush() / into_inner()
/// must then fail without delivering any of its content — every time, not only the first — and whatever flush()
/// reports as delivered (Ok) must decode to the tags accepted so far.
fn run_unclosable(c: &mut Case) {
    let o = DocOpts { p_width: 0, p_unknown: 35, raw: false, shaping: false, full_specs: false };
    let mut doc = gen_doc(&mut c.rng, c.tier, &o);
    doc.spec.install();
    if doc.spec.get(crate::spec::VOID_ID).is_none() {
        return;
    }
    // pick a known-size master, give it width 1 and a Void child that alone exceeds 126 bytes
    let mut masters: Vec<Vec<usize>> = Vec::new();
    fn collect(ns: &[Node], cur: &mut Vec<usize>, out: &mut Vec<Vec<usize>>) {
        for (i, n) in ns.iter().enumerate() {
            if n.is_master() {
                cur.push(i);
                if n.opt == SizeOpt::Default {
                    out.push(cur.clone());
                }
                collect(&n.children, cur, out);
                cur.pop();
            }
        }
    }
    collect(&doc.tree, &mut Vec::new(), &mut masters);
    if masters.is_empty() {
        return;
    }
    let path = c.rng.pick(&masters).clone();
    let marker: Vec<u8> = (0..c.rng.urange(127, 200)).map(|i| 0xA5u8 ^ (i as u8).wrapping_mul(37)).collect();
    {
        let mut n = &mut doc.tree[path[0]];
        for i in &path[1..] {
            n = &mut n.children[*i];
        }
        n.opt = SizeOpt::Width(1);
        let at = c.rng.urange(0, n.children.len());
        n.children.insert(at, Node::leaf(Item::B(crate::spec::VOID_ID, marker.clone())));
    }
    gen::fix_unknown(&doc.spec, &mut doc.tree);
    let deprecated = c.rng.chance(1, 4);
    let calls_all = calls_from_tree(&doc.tree, &mut |_| false, deprecated);
    // cut right before the End of the master that holds the marker
    let mut stack: Vec<usize> = Vec::new();
    let mut target: Option<usize> = None;
    let mut cut_at = None;
    for (i, call) in calls_all.iter().enumerate() {
        match call {
            WCall::Write(Item::Start(_), _) | WCall::DeprecatedUnknown(_) => stack.push(i),
            WCall::Write(Item::End(_), _) => {
                if stack.pop() == target && target.is_some() {
                    cut_at = Some(i);
                    break;
                }
            }
            WCall::Write(Item::B(id, d), _) if *id == crate::spec::VOID_ID && *d == marker => target = stack.last().copied(),
            _ => {}
        }
    }
    let (cut_at, target) = match (cut_at, target) {
        (Some(a), Some(t)) => (a, t),
        _ => return,
    };
    if !matches!(calls_all[target], WCall::Write(Item::Start(_), SizeOpt::Width(1))) {
        return; // fix_unknown changed the picture
    }
    let calls: Vec<WCall> = calls_all[..cut_at].to_vec();
    let mut w = TagWriter::new(ScriptedWrite::new());
    let wit = |calls: &[WCall], dest: &[u8], msg: &str| doc_json(&doc).set("calls", calls_json(calls, 80)).set("then", J::s("flush(), flush(), [End of the unclosable master], flush(), into_inner()")).set("destination", J::s(hex_short(dest, 600))).set("problem", J::s(msg));
    for (i, call) in calls.iter().enumerate() {
        let r = do_call(&mut w, call);
        c.eval();
        if !r.is_ok() {
            if let WRes::Caught(cg) = &r {
                c.violation(format!("C10/unclosable/writer-{}", cg.sig()), format!("call {} {}", i, cg.text()), wit(&calls, &w.get_ref().data.clone(), "panic"));
            }
            c.count("vacuous_unclosable_prefix_rejected");
            return;
        }
    }
    c.count("unclosable_histories");
    let before = w.get_ref().data.clone();
    let contains_marker = |d: &[u8]| d.windows(32).any(|x| x == &marker[..32]);
    if contains_marker(&before) {
        c.violation("C10/unclosable/content-leaked-before-flush", "content of an open explicit-width master reached the destination", wit(&calls, &before, "marker bytes found in the destination"));
        return;
    }
    let full = partial_tree(&calls);
    let mut prev = before.clone();
    let steps: [&str; 4] = ["flush#1", "flush#2", "end", "flush#3"];
    for step in steps {
        let r = if step == "end" { do_call(&mut w, &calls_all[cut_at]) } else { do_call(&mut w, &WCall::Flush) };
        c.eval();
        let dest = w.get_ref().data.clone();
        if let WRes::Caught(cg) = &r {
            c.violation(format!("C10/unclosable/{}-{}", step, cg.sig()), cg.text(), wit(&calls, &dest, "panic"));
            return;
        }
        if dest.len() < prev.len() || dest[..prev.len()] != prev[..] {
            c.violation(format!("C10/unclosable/retracted/{}", step), "destination content is not an extension of what it held before", wit(&calls, &dest, "retracted"));
            return;
        }
        if r.is_ok() && step != "end" {
            // delivered and complete: must decode to everything accepted
            if let Err(e) = layout_guided(&dest, &full) {
                c.violation(format!("C10/unclosable/{}-ok-but-incomplete", step), format!("{} returned Ok but the destination does not decode to the tags accepted so far: {}", step, e), wit(&calls, &dest, &e));
                return;
            }
        }
        if !r.is_ok() && contains_marker(&dest) {
            c.violation(format!("C10/unclosable/content-leaked/{}", step), format!("{} failed ({}) yet content of the master that cannot be closed reached the destination", step, r.short()), wit(&calls, &dest, "marker bytes found in the destination"));
            return;
        }
        c.count(&format!("unclosable_{}_{}", step.trim_end_matches(|ch: char| ch == '#' || ch.is_ascii_digit()), if r.is_ok() { "ok" } else { "err" }));
        prev = dest;
    }
    match finish(w) {
        Err(cg) => c.violation(format!("C10/unclosable/into_inner-{}", cg.sig()), cg.text(), J::Null),
        Ok(Ok(sink)) => {
            if let Err(e) = layout_guided(&sink.data, &full) {
                c.violation("C10/unclosable/into_inner-ok-but-incomplete", format!("into_inner() returned Ok but the destination does not decode to the tags accepted so far: {}", e), wit(&calls, &sink.data, &e));
            }
        }
        Ok(Err(_)) => c.count("unclosable_into_inner_err"),
    }
    c.nontrivial(mix(hash_str("unclosable"), (path.len() as u64) << 8 | (cut_at.min(200) as u64)));
}

fn run(c: &mut Case) {
    if c.idx % 8 == 5 {
        run_unclosable(c);
        return;
    }
    let o = DocOpts { p_width: 8, p_unknown: 35, raw: false, shaping: true, full_specs: false };
    let doc = gen_doc(&mut c.rng, c.tier, &o);
    doc.spec.install();
    if doc.tree.is_empty() {
        return;
    }
    let p_collapse = *c.rng.pick(&[0u64, 0, 25, 60]);
    let mut r2 = c.rng.fork();
    let deprecated = c.rng.chance(1, 4);
    let mut calls = calls_from_tree(&doc.tree, &mut |_| r2.below(100) < p_collapse, deprecated);
    // cut the history (leaving masters open) in a third of the cases
    let cut = c.rng.chance(1, 3) && calls.len() > 1;
    if cut {
        let n = c.rng.urange(1, calls.len() - 1);
        calls.truncate(n);
    }
    // raw writes (write_raw) at random positions: any id, no validation, same streaming rules as other elements
    if c.rng.chance(1, 3) {
        for _ in 0..c.rng.urange(1, 3) {
            let id = loop {
                let l = c.rng.urange(1, 4);
                let id = gen::random_id(&mut c.rng, l);
                if doc.spec.get(id).is_none() {
                    break id;
                }
            };
            let n = c.rng.urange(0, 12);
            let pos = c.rng.urange(0, calls.len());
            // not inside a master that was started with an explicit size width: the extra bytes could overflow that width
            if explicit_width_open_at(&calls, pos) {
                continue;
            }
            let data = c.rng.bytes(n);
            calls.insert(pos, WCall::WriteRaw(id, data));
            c.count("write_raw_calls");
        }
    }
    // a fifth of the histories contain one or two calls that the writer must reject (C19's generators): they are not
    // part of "the tags written so far", and every streaming guarantee has to hold around and after them
    let mut with_rejections = false;
    if c.rng.chance(1, 5) {
        for _ in 0..c.rng.urange(1, 2) {
            let pos = c.rng.urange(0, calls.len());
            let chain = super::c19::shadow_at(&calls, pos);
            let kind = *c.rng.pick(&super::c19::KINDS);
            if let Some((prefix, failing)) = super::c19::make_failing2(&mut c.rng, &doc.spec, kind, &chain) {
                if prefix.is_empty() {
                    for (k, f) in failing.into_iter().enumerate() {
                        calls.insert(pos + k, f);
                    }
                    with_rejections = true;
                }
            }
        }
        if with_rejections {
            c.count("histories_with_rejected_calls");
        }
    }
    // a quarter of the histories go on after a flush() in the middle: flush() closes every open master, the writer stays
    // usable, and a second document (same specification) follows
    let mut reused = false;
    if c.rng.chance(1, 4) {
        let tb = gen::TreeBounds { max_elems: 12, max_depth: 4, big_payloads: false, globals: true };
        let mut t2 = gen::gen_tree(&mut c.rng, &doc.spec, &tb);
        gen::assign_opts(&mut c.rng, &doc.spec, &mut t2, 8, 35);
        if !t2.is_empty() {
            let mut r3 = c.rng.fork();
            let calls2 = calls_from_tree(&t2, &mut |_| r3.below(100) < p_collapse, deprecated);
            calls.push(WCall::Flush);
            calls.extend(calls2);
            reused = true;
            c.count("histories_continued_after_flush");
        }
    }
    let mut accepted: Vec<WCall> = Vec::new();
    let explicit_flush = c.rng.chance(1, 2);
    let mut sink = ScriptedWrite::new().with_limits(if c.rng.chance(1, 4) { vec![7, 1, 3] } else { vec![] });
    // one history in eight: the destination's own flush() fails once (its write() calls took every byte). The writer
    // call during which that happens returns a WriteError; whether its tag counts as written is left open (both
    // readings are accepted, see below) — but no byte may ever reach the destination twice.
    let flaky_flush = !with_rejections && c.rng.chance(1, 8);
    if flaky_flush {
        sink.fail_flush_at = Some(c.rng.usize_below(calls.len().max(1)));
        c.count("histories_with_a_failing_destination_flush");
    }
    let mut w = TagWriter::new(sink);
    // when a call ended in a WriteError because of the injected flush fault: the accepted list without that call
    let mut alt_accepted: Option<Vec<WCall>> = None;
    // shadow stack: true = known-size
    let mut shadow: Vec<bool> = Vec::new();
    let mut shapes = String::new();
    let mut deep = false;
    let mut prev_len = 0usize;
    let mut prev_snapshot: Vec<u8> = Vec::new();
    let wit = |calls: &[WCall], upto: usize, dest: &[u8], msg: &str| doc_json(&doc).set("calls", calls_json(&calls[..=upto.min(calls.len() - 1)], 80)).set("observed_after_call", J::u(upto)).set("destination", J::s(hex_short(dest, 600))).set("problem", J::s(msg));
    for (i, call) in calls.iter().enumerate() {
        let known_open_before = shadow.iter().any(|k| *k);
        let r = do_call(&mut w, call);
        c.eval();
        // the destination is looked at through get_mut() after every third call: an accessor, like get_ref()
        let dest = if i % 3 == 1 { w.get_mut().data.clone() } else { w.get_ref().data.clone() };
        // (4) append-only
        if dest.len() < prev_len || dest[..prev_len] != prev_snapshot[..] {
            c.violation("C10/retracted", "destination content is not an extension of what it held before", wit(&calls, i, &dest, "retracted"));
            return;
        }
        match &r {
            WRes::Ok => {}
            WRes::Caught(cg) => {
                c.violation(format!("C10/writer-{}", cg.sig()), format!("call {} {}", i, cg.text()), wit(&calls, i, &dest, "panic"));
                return;
            }
            WRes::Err(crate::wr::WErr::Io { .. }) if flaky_flush && alt_accepted.is_none() => {
                // the injected destination fault: go on as if the call had been accepted, remember the other reading
                c.count("calls_ended_by_the_injected_flush_fault");
                alt_accepted = Some(accepted.clone());
            }
            WRes::Err(_) => {
                if !with_rejections {
                    c.count("vacuous_writer_rejected");
                    return;
                }
                // a rejected call is not one of "the tags written so far". It may still hand over pending bytes of
                // *accepted* tags (the header of an unknown-size Start), so growth alone proves nothing; what the
                // destination holds is judged at the next observation point and at the end, against the accepted calls
                c.count("rejected_calls_observed");
                if dest.len() != prev_len {
                    c.count("rejected_calls_during_which_the_destination_grew");
                }
                prev_len = dest.len();
                prev_snapshot = dest;
                continue;
            }
        }
        accepted.push(call.clone());
        // update shadow
        let mut observation = false;
        match call {
            WCall::Write(Item::Start(_), opt) => shadow.push(*opt != SizeOpt::Unknown),
            WCall::DeprecatedUnknown(_) => shadow.push(false),
            WCall::Write(Item::End(_), _) => {
                shadow.pop();
                observation = true;
            }
            WCall::Write(_, _) => observation = true,
            WCall::WriteRaw(..) => observation = true,
            WCall::Flush => {
                shadow.clear();
                observation = true;
            }
        }
        let known_open_after = shadow.iter().any(|k| *k);
        if known_open_before && known_open_after {
            // (2) content of an open known-size master must be held back
            c.count("held_back_checks");
            if dest.len() != prev_len {
                c.violation(
                    format!("C10/leaked-while-known-open/depth{}", shadow.len().min(4)),
                    format!("destination grew from {} to {} bytes during call {} although a known-size master is open", prev_len, dest.len(), i),
                    wit(&calls, i, &dest, "content of an open known-size master reached the destination"),
                );
                return;
            }
        }
        if observation && !known_open_after {
            // (1) everything accepted so far must be there, and nothing else
            c.count("complete_prefix_checks");
            let res = decode_either(&dest, &accepted, &alt_accepted);
            if let Err(e) = res {
                let shape: String = shadow.iter().map(|k| if *k { 'K' } else { 'U' }).collect();
                c.violation(
                    format!("C10/incomplete-when-no-known-open/stack-{}/{}", if shape.is_empty() { "empty".to_string() } else { shape.chars().take(4).collect() }, match call { WCall::Write(Item::End(_), _) => "after-end", WCall::Write(Item::Full(..), _) => "after-full", _ => "after-element" }),
                    format!("after call {} ({}) no known-size master is open but the destination does not hold exactly the tags written so far: {}", i, call.short(), e),
                    wit(&calls, i, &dest, &e),
                );
                return;
            }
            let shape: String = shadow.iter().map(|k| if *k { 'K' } else { 'U' }).collect();
            if shadow.len() >= 2 {
                deep = true;
            }
            shapes.push_str(&shape);
            shapes.push('|');
        }
        prev_len = dest.len();
        prev_snapshot = dest;
    }
    // (3) flush / into_inner close everything
    let open_at_end = shadow.len();
    if explicit_flush {
        let r = do_call(&mut w, &WCall::Flush);
        c.eval();
        let mut r = r;
        if flaky_flush && alt_accepted.is_none() && matches!(r, WRes::Err(crate::wr::WErr::Io { .. })) {
            // the injected destination fault hit this flush(): the caller simply tries again
            c.count("calls_ended_by_the_injected_flush_fault");
            alt_accepted = Some(accepted.clone());
            accepted.push(WCall::Flush);
            r = do_call(&mut w, &WCall::Flush);
        }
        if !r.is_ok() && with_rejections {
            // an accepted call next to a rejected one may have left a master that cannot be closed: nothing to decide
            c.count("vacuous_flush_failed_after_rejections");
            return;
        }
        if !r.is_ok() && flaky_flush && matches!(r, WRes::Err(crate::wr::WErr::Io { .. })) {
            // the destination's own flush() failed once in this history: how a writer carries on after an I/O error of
            // its destination is outside the property (it may well refuse everything from then on)
            c.count("vacuous_flush_failed_with_io_error_after_the_injected_fault");
            return;
        }
        if !r.is_ok() {
            c.violation(format!("C10/flush-failed/{}", r.kind()), format!("flush() failed: {}", r.short()), wit(&calls, calls.len() - 1, &w.get_ref().data.clone(), "flush"));
            return;
        }
        let dest = w.get_ref().data.clone();
        if let Err(e) = decode_either(&dest, &accepted, &alt_accepted) {
            c.violation(format!("C10/flush-incomplete/open{}", open_at_end.min(4)), format!("after flush() the destination does not decode to the whole tree: {}", e), wit(&calls, calls.len() - 1, &dest, &e));
            return;
        }
    }
    match finish(w) {
        Err(cg) => c.violation(format!("C10/into_inner-{}", cg.sig()), cg.text(), J::Null),
        Ok(Err(_)) if with_rejections => c.count("vacuous_into_inner_failed_after_rejections"),
        Ok(Err(crate::wr::WErr::Io { .. })) if flaky_flush => c.count("vacuous_into_inner_failed_with_io_error_after_the_injected_fault"),
        Ok(Err(e)) => c.violation(format!("C10/into_inner-failed/{}", e.kind()), format!("into_inner failed: {:?}", e), doc_json(&doc).set("calls", calls_json(&calls, 80))),
        Ok(Ok(sink)) => {
            c.count("final_decodes");
            let full = partial_tree(&accepted);
            match decode_either(&sink.data, &accepted, &alt_accepted) {
                Err(e) => c.violation(format!("C10/final-incomplete/open{}", open_at_end.min(4)), format!("after into_inner() the destination does not decode to the whole tree: {}", e), wit(&calls, calls.len() - 1, &sink.data, &e)),
                Ok(lay) => {
                    c.add("elements_in_final_output", lay as u64);
                    if !cut && !with_rejections && !reused && !flaky_flush && !calls.iter().any(|x| matches!(x, WCall::WriteRaw(..))) && flat(&full) != flat(&doc.tree) {
                        // harness self-check: the partial-tree builder must reproduce the generated tree
                        panic!("partial_tree mismatch");
                    }
                }
            }
            // whether the writer also calls the destination's own flush() is recorded; the property speaks of bytes handed over
            if sink.flushes == 0 {
                c.count("histories_in_which_the_destination_was_never_flushed");
            }
        }
    }
    let (m, u, _, _) = gen::tree_stats(&doc.tree);
    c.add("masters", m as u64);
    c.add("unknown_size_masters", u as u64);
    if deep || (cut && open_at_end > 0) {
        c.nontrivial(mix(mix(hash_str(&shapes), open_at_end as u64), gen::tree_fingerprint(&doc.tree)));
        c.nontrivial(mix(hash_str(&shapes), 0x5a5a)); // the stack-shape sequence by itself
    }
    if cut && open_at_end > 0 {
        c.count("histories_cut_with_open_masters");
    }
    if c.idx % 577 == 2 {
        c.set_sample(doc_json(&doc).set("calls", calls_json(&calls, 30)).set("shadow_stack_shapes_at_observation_points", J::s(shapes.clone())).set("cut_with_open_masters", J::u(open_at_end)));
    }
}
