//! Giant boundary cases shared by C01 and C02 (thorough tier only): payload / master-content sizes at the
//! 4-byte/5-byte size-field boundary 2^28-1 (the largest boundary that fits in memory; the next one is 2^35-1).
//!
//! Layout (Z_TEST spec):  Segment[ Cluster[ Block(p bytes), Count(7) ], TrackType(5) ]
//!   kind L: the Block payload has exactly n bytes;
//!   kind M: the Cluster content has exactly n bytes (p = n - 9: Block header 1+4, Count element 4).
//! n = 2^28 + d, d in {-2,-1,0}.
//!
//! C01 flavour: the real writer (default widths) writes the document; the bytes must equal the reference encoding
//! (minimal size width that is not the reserved all-ones pattern) and the real strict reader must give the tags back.
//! C02 flavour: the reference encoder produces the document with the boundary size in a *wider* field (5..8 bytes);
//! read -> re-write with default options -> read must be a fixpoint, and the re-written boundary header must decode
//! (reference decoder) to the same known size.

use crate::json::J;
use crate::obs::guard;
use crate::refcodec::{dec_id, dec_size, enc_vint, id_bytes, Dec, RSize};
use crate::runner::Case;
use crate::spec::{DVal, DynTag};
use ebml_iterable::specs::Master;
use ebml_iterable::{TagIterator, TagWriter};

const SEG: u64 = 0x18538067;
const CLU: u64 = 0x1F43B675;
const BLOCK: u64 = 0xa1;
const COUNT: u64 = 0x4100;
const TT: u64 = 0x83;
pub const GIANT_CASES: u64 = 6;
const BUDGET: u64 = u64::MAX / 4;

/// minimal width whose value range contains n without being the reserved all-ones pattern
fn ref_width(n: u64) -> usize {
    (1..=8).find(|w| n < (1u64 << (7 * w)) - 1).unwrap()
}

fn ref_header(id: u64, n: u64, width: usize) -> Vec<u8> {
    let mut v = id_bytes(id);
    v.extend(enc_vint(n, width));
    v
}

fn fill(p: usize, salt: u64) -> Vec<u8> {
    let mut v = vec![0u8; p];
    let mut x = 0x9E3779B97F4A7C15u64 ^ salt;
    for ch in v.chunks_mut(8) {
        x = x.wrapping_mul(6364136223846793005).wrapping_add(1442695040888963407);
        let b = (x >> 11).to_le_bytes();
        ch.copy_from_slice(&b[..ch.len()]);
    }
    v
}

fn start(id: u64) -> DynTag {
    DynTag { id, val: DVal::M(Master::Start) }
}
fn end(id: u64) -> DynTag {
    DynTag { id, val: DVal::M(Master::End) }
}

/// (expected flat shape): ids and payload lengths; the Block payload is compared against `payload` by content
fn check_items(tags: &[DynTag], payload: &[u8]) -> Result<(), String> {
    let want: [(u64, &str); 8] = [(SEG, "start"), (CLU, "start"), (BLOCK, "bin"), (COUNT, "7"), (CLU, "end"), (TT, "5"), (SEG, "end"), (0, "")];
    if tags.len() != 7 {
        return Err(format!("{} items instead of 7: {:?}", tags.len(), tags.iter().map(|t| format!("{:x}", t.id)).collect::<Vec<_>>()));
    }
    for (i, t) in tags.iter().enumerate() {
        let (id, what) = want[i];
        if t.id != id {
            return Err(format!("item {} has id {:x}, expected {:x}", i, t.id, id));
        }
        let ok = match (&t.val, what) {
            (DVal::M(Master::Start), "start") => true,
            (DVal::M(Master::End), "end") => true,
            (DVal::B(b), "bin") => b.len() == payload.len() && b[..] == payload[..],
            (DVal::U(7), "7") => true,
            (DVal::U(5), "5") => true,
            _ => false,
        };
        if !ok {
            let d = match &t.val {
                DVal::B(b) => format!("binary of {} bytes (expected {})", b.len(), payload.len()),
                other => format!("{:?}", other).chars().take(60).collect(),
            };
            return Err(format!("item {} ({:x}) is {} — expected {}", i, t.id, d, what));
        }
    }
    Ok(())
}

fn read_all(bytes: &[u8]) -> Result<Vec<DynTag>, String> {
    let r = guard(BUDGET, || {
        let mut it: TagIterator<&[u8], DynTag> = TagIterator::new(bytes, &[]);
        it.set_max_allowable_tag_size(Some(1 << 30));
        let mut out = Vec::new();
        for _ in 0..64 {
            match it.next() {
                None => return Ok(out),
                Some(Ok(t)) => out.push(t),
                Some(Err(e)) => return Err(format!("after {} items: {:?}", out.len(), e).chars().take(300).collect::<String>()),
            }
        }
        Err("more than 64 items".to_string())
    });
    match r {
        Err(c) => Err(c.text()),
        Ok(x) => x,
    }
}

fn write_all(tags: &[DynTag]) -> Result<Vec<u8>, String> {
    let r = guard(BUDGET, || {
        let mut w = TagWriter::new(Vec::new());
        for (i, t) in tags.iter().enumerate() {
            if let Err(e) = w.write(t) {
                return Err(format!("write call {} rejected: {:?}", i, e).chars().take(300).collect::<String>());
            }
        }
        w.into_inner().map_err(|e| format!("into_inner failed: {:?}", e))
    });
    match r {
        Err(c) => Err(c.text()),
        Ok(x) => x,
    }
}

/// reference layout of the document given the three size widths
fn ref_doc(payload: &[u8], w_block: usize, w_clu: usize, w_seg: usize) -> Vec<u8> {
    let p = payload.len() as u64;
    let count = [0x41u8, 0x00, 0x81, 0x07];
    let tt = [0x83u8, 0x81, 0x05];
    let bh = ref_header(BLOCK, p, w_block);
    let clu_content = bh.len() as u64 + p + count.len() as u64;
    let ch = ref_header(CLU, clu_content, w_clu);
    let seg_content = ch.len() as u64 + clu_content + tt.len() as u64;
    let sh = ref_header(SEG, seg_content, w_seg);
    let mut v = Vec::with_capacity(sh.len() + seg_content as usize);
    v.extend_from_slice(&sh);
    v.extend_from_slice(&ch);
    v.extend_from_slice(&bh);
    v.extend_from_slice(payload);
    v.extend_from_slice(&count);
    v.extend_from_slice(&tt);
    v
}

/// The giant document as the writer laid it out: Segment[ Cluster[ Block(p bytes), Count ], TrackType ] with known sizes of
/// any width, each equal to the real extent of its content.
fn walk_giant(b: &[u8], p: usize) -> Result<(), String> {
    fn hdr(b: &[u8], off: usize, want: u64) -> Result<(usize, u64), String> {
        if off >= b.len() {
            return Err(format!("output ends at {} where element {:x} should start", off, want));
        }
        match dec_id(&b[off..]) {
            Dec::Ok(id, il) if id == want => match dec_size(&b[off + il..]) {
                Dec::Ok(RSize::Known(v), sl) => Ok((il + sl, v)),
                Dec::Ok(RSize::Unknown, sl) => Err(format!("element {:x} at {}: its {}-byte size field is the reserved unknown-size pattern although the element was written with a known size", want, off, sl)),
                _ => Err(format!("element {:x} at {}: size field does not decode", want, off)),
            },
            Dec::Ok(id, _) => Err(format!("element {:x} found at {} where {:x} was written", id, off, want)),
            _ => Err(format!("no id decodes at {}", off)),
        }
    }
    let (h_seg, s_seg) = hdr(b, 0, SEG)?;
    if h_seg as u64 + s_seg != b.len() as u64 {
        return Err(format!("Segment declares {} bytes but {} follow its header", s_seg, b.len() - h_seg));
    }
    let o_clu = h_seg;
    let (h_clu, s_clu) = hdr(b, o_clu, CLU)?;
    let o_blk = o_clu + h_clu;
    let (h_blk, s_blk) = hdr(b, o_blk, BLOCK)?;
    if s_blk != p as u64 {
        return Err(format!("Block declares {} bytes, {} were written", s_blk, p));
    }
    let o_cnt = o_blk + h_blk + p;
    let (h_cnt, s_cnt) = hdr(b, o_cnt, COUNT)?;
    let end_clu = o_cnt + h_cnt + s_cnt as usize;
    if (o_clu + h_clu) as u64 + s_clu != end_clu as u64 {
        return Err(format!("Cluster declares {} bytes but its content is {} bytes", s_clu, end_clu - o_clu - h_clu));
    }
    let (h_tt, s_tt) = hdr(b, end_clu, TT)?;
    if end_clu + h_tt + s_tt as usize != b.len() {
        return Err(format!("output has {} bytes, the elements account for {}", b.len(), end_clu + h_tt + s_tt as usize));
    }
    Ok(())
}

fn first_diff(a: &[u8], b: &[u8]) -> Option<usize> {
    if a.len() == b.len() && a == b {
        return None;
    }
    Some(a.iter().zip(b.iter()).position(|(x, y)| x != y).unwrap_or(a.len().min(b.len())))
}

fn hex(b: &[u8]) -> String {
    b.iter().map(|x| format!("{:02x}", x)).collect()
}

pub fn run_giant(c: &mut Case, prop: &str, which: u64) {
    crate::gen::z_test().install();
    let d: i64 = [-2i64, -1, 0][(which % 3) as usize];
    let n = ((1i64 << 28) + d) as u64;
    let kind_m = which / 3 == 1;
    let p = if kind_m { n - 9 } else { n } as usize;
    let payload = fill(p, which);
    let label = format!("{}-content-2^28{:+}", if kind_m { "master" } else { "leaf" }, d);
    let wit = |msg: &str, head: &[u8]| J::obj().set("giant_case", J::s(label.clone())).set("boundary_size", J::u(n as usize)).set("block_payload_bytes", J::u(p)).set("problem", J::s(msg)).set("first_bytes", J::s(hex(&head[..head.len().min(32)])));
    c.eval();
    if prop == "C01" {
        let tags = vec![start(SEG), start(CLU), DynTag { id: BLOCK, val: DVal::B(payload) }, DynTag { id: COUNT, val: DVal::U(7) }, end(CLU), DynTag { id: TT, val: DVal::U(5) }, end(SEG)];
        let bytes = match write_all(&tags) {
            Ok(b) => b,
            Err(e) => {
                // conditional on acceptance (a panic is reported by write_all as an Err carrying the panic text)
                if e.contains("PANIC") || e.contains("panic") {
                    c.violation(format!("C01/giant/{}/writer-failed", label), e.clone(), wit(&e, &[]));
                } else {
                    c.count("vacuous_giant_writer_rejected");
                }
                return;
            }
        };
        let payload = match &tags[2].val {
            DVal::B(b) => b,
            _ => unreachable!(),
        };
        // Structure, whatever size-field widths the writer chose by default (no property pins them): every declared
        // size is a known size and describes exactly the content that follows.
        if let Err(msg) = walk_giant(&bytes, p) {
            c.violation(format!("C01/giant/{}/sizes-do-not-describe-the-content", label), msg.clone(), wit(&msg, &bytes));
            return;
        }
        match read_all(&bytes).and_then(|t| check_items(&t, payload)) {
            Ok(()) => {}
            Err(e) => {
                c.violation(format!("C01/giant/{}/read-back-differs", label), e.clone(), wit(&e, &bytes));
                return;
            }
        }
        c.count("giant_roundtrips");
    } else {
        // C02: boundary size carried in a wider field than necessary
        let wide = [5usize, 6, 8][(which % 3) as usize].max(ref_width(n));
        let (wb, wc) = if kind_m { (ref_width(p as u64), wide) } else { (wide, ref_width((1 + wide + p + 4) as u64).max(5)) };
        let clu_content = (1 + wb + p + 4) as u64;
        let seg_content = 4 + wc as u64 + clu_content + 3;
        let input = ref_doc(&payload, wb, wc, ref_width(seg_content));
        let t1 = match read_all(&input).and_then(|t| check_items(&t, &payload).map(|_| t)) {
            Ok(t) => t,
            Err(e) => {
                c.violation(format!("C02/giant/{}/first-read-differs", label), e.clone(), wit(&e, &input));
                return;
            }
        };
        drop(input);
        let out = match write_all(&t1) {
            Ok(b) => b,
            Err(e) => {
                c.violation(format!("C02/giant/{}/rewrite-failed", label), e.clone(), wit(&e, &[]));
                return;
            }
        };
        drop(t1);
        // the re-written stream, whatever widths the writer chose: every declared size is a known size and describes
        // exactly what follows (the boundary size 2^28-1 must not come out as the reserved pattern of a 4-byte field)
        if let Err(msg) = walk_giant(&out, p) {
            c.violation(format!("C02/giant/{}/rewritten-size-field", label), msg.clone(), wit(&msg, &out));
            return;
        }
        match read_all(&out).and_then(|t| check_items(&t, &payload)) {
            Ok(()) => {}
            Err(e) => {
                c.violation(format!("C02/giant/{}/second-read-differs", label), e.clone(), wit(&e, &out));
                return;
            }
        }
        c.count("giant_fixpoints");
    }
    c.nontrivial(crate::prng::hash_str(&label));
}

fn hdr_len_at(b: &[u8], off: usize) -> usize {
    match dec_id(&b[off..]) {
        Dec::Ok(_, il) => match dec_size(&b[off + il..]) {
            Dec::Ok(_, sl) => il + sl,
            _ => il,
        },
        _ => 0,
    }
}
fn seg_hdr_len(b: &[u8]) -> usize {
    hdr_len_at(b, 0)
}
fn clu_hdr_len(b: &[u8]) -> usize {
    hdr_len_at(b, seg_hdr_len(b))
}
