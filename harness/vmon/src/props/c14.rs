//! C14 — recovery after inserted junk resumes at the next tag and loses nothing else.

use super::c05::random_source;
use super::inputs::*;
use crate::io::ScriptedRead;
use crate::json::{hex, J};
use crate::prng::{hash_str, mix};
use crate::rd::{make_iter, next_ev, parse_slice, recover_ev, step_budget, ErrRec, Ev, MaxSz, RCfg};
use crate::refcodec::id_bytes;
use crate::runner::{Case, PropDef, Tier};
use crate::spec::Item;

pub static DEF: PropDef = PropDef {
    id: "C14",
    level: "fault_enumeration",
    rule: "each case: one valid document (real writer or reference encoder; two thirds all known-size, one third with unknown-size masters mixed in) and, at EVERY tag boundary (offset of every element but the first; documents up to 60 elements, else 40 random boundaries), a junk run of length 1-40 drawn from bytes that are not the first byte of any id of the specification (computed per specification, runs of 0x00 included). The damaged stream is parsed with unknown ids never tolerated and the other two tolerance switches varied: next() until the first error, then try_recover(), then next() to the end. The precondition 'the tag after the junk still fits inside every enclosing known-size master after the shift' is evaluated from the layout. When it holds: items before the junk are unchanged, exactly one error is reported, try_recover() succeeds, and every remaining item equals the undamaged parse with offsets shifted by the junk length. One insertion in ten additionally lets the source fail once (transient I/O error) while try_recover() scans: only the always-clauses are judged there. In every case (also junk before the first tag / after the last one / precondition false): try_recover() does not panic or exceed its step budget, fails only with UnexpectedEOF or ReadError (also when called again and again after it reported end of input, interleaved with next()), and no item after recovery reports an offset before the position of the reported error. distinct = (depth of the boundary, junk length class, fits / does not fit, junk class); non-trivial iff the boundary is inside at least one master.",
    assumptions: &["layout of the valid document (reference decoder)", "junk bytes are chosen so that no position inside the junk can start a specification-valid tag"],
    cases_quick: 120_000,
    cases_thorough: 1_500_000,
    floors: &[("insertions", 20_000), ("precondition_true", 5_000), ("precondition_false", 1_000), ("recoveries_compared", 5_000), ("distinct_nontrivial", 40)],
    exhaustive_note: Some("every tag boundary of each generated document with <= 60 elements"),
    run,
};

fn run(c: &mut Case) {
    let mut m = Mix::MOSTLY_VALID;
    // a third of the documents mix unknown-size masters in (the statement speaks of every enclosing *known-size* master)
    m.p_unknown = *c.rng.pick(&[0u64, 0, 30]);
    let mixed_doc = m.p_unknown > 0;
    m.small = c.rng.chance(1, 2);
    let inp = gen_valid(&mut c.rng, c.tier, &m);
    inp.spec.install();
    if inp.lay.len() < 2 || inp.bytes.len() > 30_000 {
        return;
    }
    let lay = &inp.lay;
    // bytes that cannot start any id of the spec
    let mut first = [false; 256];
    for e in &inp.spec.elems {
        first[id_bytes(e.id)[0] as usize] = true;
    }
    let junk_bytes: Vec<u8> = (0..=255u8).filter(|b| !first[*b as usize]).collect();
    if junk_bytes.len() < 4 {
        return;
    }
    // unknown ids are never tolerated here (junk would then be a valid raw tag); the other two switches are varied
    let allow = *c.rng.pick(&[0u8, 0, crate::rd::ALLOW_OVERSIZE, crate::rd::ALLOW_HIER, crate::rd::ALLOW_HIER | crate::rd::ALLOW_OVERSIZE]);
    // the limit: generous, or tight — exactly the largest size the undamaged document declares (plus 0-8): recovery
    // stretches open masters by the skipped distance, and that stretched extent is not a declared size
    let largest = lay.iter().filter_map(|l| l.size).max().unwrap_or(0) as usize;
    let limit = if c.rng.chance(1, 3) { largest + c.rng.usize_below(9) } else { 1 << 20 };
    let cfg = RCfg { allow, buffered: vec![], capacity: *c.rng.pick(&[None, None, Some(16), Some(64)]), max_size: MaxSz::Set(Some(limit)), eof_end: true };
    let base = parse_slice(&inp.bytes, &RCfg { capacity: None, ..cfg.clone() });
    c.eval();
    if !base.clean() {
        c.count("vacuous_base_not_clean");
        return;
    }
    let mut spots: Vec<usize> = (1..lay.len()).collect();
    if lay.len() > 60 {
        c.rng.shuffle(&mut spots);
        spots.truncate(40);
    }
    // extra always-clause positions: before the first tag, after the last
    let mut positions: Vec<(usize, Option<usize>)> = spots.iter().map(|k| (lay[*k].off, Some(*k))).collect();
    positions.push((0, None));
    positions.push((inp.bytes.len(), None));
    for (b, follow) in positions {
        let jl = match c.rng.below(4) {
            0 => 1,
            1 => c.rng.urange(2, 4),
            2 => c.rng.urange(5, 16),
            _ => c.rng.urange(17, 40),
        };
        let jclass;
        let junk: Vec<u8> = match c.rng.below(4) {
            0 if !first[0] => {
                jclass = "zeros";
                vec![0u8; jl]
            }
            1 => {
                jclass = "same-byte";
                let x = *c.rng.pick(&junk_bytes);
                vec![x; jl]
            }
            _ => {
                jclass = "random";
                (0..jl).map(|_| *c.rng.pick(&junk_bytes)).collect()
            }
        };
        let mut dam = inp.bytes[..b].to_vec();
        dam.extend_from_slice(&junk);
        dam.extend_from_slice(&inp.bytes[b..]);
        // precondition
        let fits = match follow {
            None => false,
            Some(k) => {
                let f = &lay[k];
                let mut ok = true;
                let mut p = f.parent;
                while let Some(pi) = p {
                    if lay[pi].size.is_some() && f.end + jl > lay[pi].end {
                        ok = false;
                    }
                    p = lay[pi].parent;
                }
                ok
            }
        };
        let depth = follow.map(|k| lay[k].depth).unwrap_or(0);
        c.count("insertions");
        c.count(if fits { "precondition_true" } else { "precondition_false" });
        let src = if c.tier == Tier::Thorough && c.rng.chance(1, 3) { random_source(&mut c.rng, &dam) } else { ScriptedRead::new(dam.clone()) };
        let mut it = make_iter(src, &cfg);
        let len = dam.len();
        let mut before: Vec<(Item, usize)> = Vec::new();
        let mut errors: Vec<ErrRec> = Vec::new();
        let mut after: Vec<(Item, usize)> = Vec::new();
        let mut recovered: Option<Result<(), ErrRec>> = None;
        let mut err_pos: Option<usize> = None;
        let mut caught = None;
        let wit = |msg: &str, before: &Vec<(Item, usize)>, errors: &Vec<ErrRec>, after: &Vec<(Item, usize)>, rec: &Option<Result<(), ErrRec>>| {
            inp.to_json()
                .set("junk_inserted_at", J::u(b))
                .set("junk", J::s(hex(&junk)))
                .set("following_tag_fits_enclosing_masters", J::Bool(fits))
                .set("config", cfg.to_json())
                .set("items_before_error", J::Arr(before.iter().map(|(i, o)| J::s(format!("{}@{}", i.short(), o))).collect()))
                .set("errors", J::Arr(errors.iter().map(|e| J::s(e.short())).collect()))
                .set("try_recover", J::s(format!("{:?}", rec.as_ref().map(|r| r.as_ref().map_err(|e| e.short())))))
                .set("items_after_recovery", J::Arr(after.iter().take(60).map(|(i, o)| J::s(format!("{}@{}", i.short(), o))).collect()))
                .set("undamaged_parse", base.to_json(60))
                .set("problem", J::s(msg))
        };
        // phase 1: until first error
        loop {
            it.get_mut().begin_api_call();
            match next_ev(&mut it, step_budget(len, before.len())) {
                Ev::Item(i, o) => before.push((i, o)),
                Ev::Err(e) => {
                    err_pos = e.pos().or(Some(b));
                    errors.push(e);
                    break;
                }
                Ev::None => break,
                Ev::Caught(cg) => {
                    caught = Some(cg);
                    break;
                }
            }
            if before.len() > 4 * len + 64 {
                break;
            }
        }
        c.eval();
        if let Some(cg) = caught {
            c.violation(format!("C14/next-{}", cg.sig()), cg.text(), wit("panic/hang before the error", &before, &errors, &after, &recovered));
            continue;
        }
        if errors.is_empty() {
            if fits || follow.is_some() {
                c.violation(format!("C14/no-error-reported/{}", jclass), format!("junk {} inserted at {} was not reported at all", hex(&junk), b), wit("no error", &before, &errors, &after, &recovered));
            }
            continue;
        }
        // one insertion in ten: the source fails once (transient I/O error) at one of the next reads, i.e. while
        // try_recover() is scanning or shortly after. Only the always-clauses are judged then: no panic, no budget
        // overrun, try_recover() fails only with end of input or a source error — whatever the scan did with the error.
        if c.rng.chance(1, 10) {
            let at = it.get_ref().call + c.rng.usize_below(3);
            let kind = *c.rng.pick(&[std::io::ErrorKind::Interrupted, std::io::ErrorKind::Other, std::io::ErrorKind::WouldBlock]);
            it.get_mut().fault_at = Some((at, kind, "verif-transient".into()));
            c.count("recoveries_with_transient_source_error");
            let mut bad: Option<(String, String)> = None;
            for round in 0..12 {
                it.get_mut().begin_api_call();
                if round % 4 == 0 {
                    match recover_ev(&mut it, step_budget(len, before.len() + after.len())) {
                        Err(cg) => {
                            bad = Some((format!("C14/try_recover-{}/transient-source-error", cg.sig()), format!("try_recover() {}", cg.text())));
                            break;
                        }
                        Ok(Err(e)) if !matches!(e, ErrRec::Eof { .. } | ErrRec::Read { .. }) => {
                            bad = Some((format!("C14/try_recover-error-kind/{}/transient-source-error", e.kind()), format!("try_recover() failed with {}", e.short())));
                            break;
                        }
                        Ok(r) => {
                            if recovered.is_none() {
                                recovered = Some(r);
                            }
                        }
                    }
                } else {
                    match next_ev(&mut it, step_budget(len, before.len() + after.len())) {
                        Ev::Item(i, o) => after.push((i, o)),
                        Ev::Err(e) => errors.push(e),
                        Ev::None => break,
                        Ev::Caught(cg) => {
                            bad = Some((format!("C14/next-{}/transient-source-error", cg.sig()), format!("next() {}", cg.text())));
                            break;
                        }
                    }
                }
            }
            if let Some((sig, msg)) = bad {
                c.violation(sig, msg, wit("panic / budget / wrong error kind around a transient source error during recovery", &before, &errors, &after, &recovered).set("source_error_at_read", J::u(at)));
            }
            continue;
        }
        // phase 2: recover
        it.get_mut().begin_api_call();
        match recover_ev(&mut it, step_budget(len, before.len())) {
            Err(cg) => {
                c.violation(format!("C14/try_recover-{}/{}", cg.sig(), jclass), format!("try_recover() {}", cg.text()), wit("try_recover panicked or exceeded its budget", &before, &errors, &after, &recovered));
                continue;
            }
            Ok(r) => recovered = Some(r),
        }
        match recovered.as_ref().unwrap() {
            Err(e) => {
                if !matches!(e, ErrRec::Eof { .. } | ErrRec::Read { .. }) {
                    c.violation(format!("C14/try_recover-error-kind/{}", e.kind()), format!("try_recover() failed with {}", e.short()), wit("try_recover may only fail with end of input or a source error", &before, &errors, &after, &recovered));
                    continue;
                }
                if fits {
                    c.violation(format!("C14/try_recover-failed/{}/depth{}", jclass, depth.min(4)), format!("try_recover() failed ({}) although the following tag fits", e.short()), wit("recovery failed with the precondition true", &before, &errors, &after, &recovered));
                    continue;
                }
                // always-clause at the end of input: further try_recover()/next() calls must not panic and may only report end of input
                for round in 0..3 {
                    it.get_mut().begin_api_call();
                    match recover_ev(&mut it, step_budget(len, before.len())) {
                        Err(cg) => {
                            c.violation(format!("C14/repeated-try_recover-{}", cg.sig()), format!("try_recover() call #{} after end of input {}", round + 2, cg.text()), wit("repeated try_recover at end of input", &before, &errors, &after, &recovered));
                            break;
                        }
                        Ok(Err(e2)) if !matches!(e2, ErrRec::Eof { .. } | ErrRec::Read { .. }) => {
                            c.violation(format!("C14/try_recover-error-kind/{}", e2.kind()), format!("repeated try_recover() failed with {}", e2.short()), wit("wrong error kind", &before, &errors, &after, &recovered));
                            break;
                        }
                        _ => {}
                    }
                    it.get_mut().begin_api_call();
                    if let Ev::Caught(cg) = next_ev(&mut it, step_budget(len, before.len())) {
                        c.violation(format!("C14/next-after-failed-recovery-{}", cg.sig()), cg.text(), wit("next() after a failed try_recover", &before, &errors, &after, &recovered));
                        break;
                    }
                    c.count("repeated_recover_rounds");
                }
                continue;
            }
            Ok(()) => {}
        }
        // phase 3: to the end
        let mut more_errors = 0;
        loop {
            it.get_mut().begin_api_call();
            match next_ev(&mut it, step_budget(len, before.len() + after.len())) {
                Ev::Item(i, o) => after.push((i, o)),
                Ev::Err(e) => {
                    errors.push(e);
                    more_errors += 1;
                    break;
                }
                Ev::None => break,
                Ev::Caught(cg) => {
                    caught = Some(cg);
                    break;
                }
            }
            if after.len() > 4 * len + 64 {
                break;
            }
        }
        if let Some(cg) = caught {
            c.violation(format!("C14/next-after-recovery-{}", cg.sig()), cg.text(), wit("panic/hang after recovery", &before, &errors, &after, &recovered));
            continue;
        }
        // always: never backwards
        // measured from where the junk starts: every byte before it had been consumed when the error was reported, whatever
        // position the error itself names
        let _ = err_pos;
        let ep = b;
        if let Some((i, o)) = after.iter().find(|(i, o)| !i.is_end() && *o < ep) {
            c.violation(format!("C14/moved-backwards/{}", jclass), format!("after recovery item {} reports offset {} which is before the reported error position {}", i.short(), o, ep), wit("moved backwards", &before, &errors, &after, &recovered));
            continue;
        }
        if !fits {
            continue;
        }
        c.count("recoveries_compared");
        // precondition true: strict expectations
        let k = follow.unwrap();
        // undamaged items split at the first item whose element starts at b
        let split = base.items.iter().position(|(i, o)| !i.is_end() && *o == b).unwrap_or(base.items.len());
        // Ends of masters that close exactly at b belong to "before" in the undamaged parse; in the damaged stream they are
        // emitted before the error as well (range exhausted) — unless the junk extends them; compare as multisets split by content
        let exp_before: Vec<(Item, usize)> = base.items[..split].to_vec();
        let exp_after: Vec<(Item, usize)> = base.items[split..].iter().map(|(i, o)| (i.clone(), if *o >= b { o + jl } else { *o })).collect();
        // the Ends that sit right before `split` (masters ending at b) may legitimately appear after the recovery instead:
        // the junk lies between the master's last child and the next tag, and recovery stretches open masters
        let mut eb = exp_before.clone();
        let mut ea = exp_after.clone();
        let mut moved = Vec::new();
        while before.len() < eb.len() && eb.last().map(|x| x.0.is_end()).unwrap_or(false) {
            moved.insert(0, eb.pop().unwrap());
        }
        if !moved.is_empty() {
            let mut v = moved.clone();
            v.extend(ea);
            ea = v;
        }
        let sig_tail = format!("{}/depth{}/len{}", jclass, depth.min(4), if jl == 1 { "1" } else if jl <= 4 { "2-4" } else if jl <= 16 { "5-16" } else { "17-40" });
        if mixed_doc && before.len() > eb.len() && before[..eb.len()] == eb[..] && before[eb.len()..].iter().all(|x| x.0.is_end()) {
            // only in documents with unknown-size masters (outside the statement's "known-size documents"): a reader may
            // close the open unknown-size masters when it meets the junk — the same don't-care as in C12/C13; what follows
            // is then not comparable with the undamaged parse
            c.count("vacuous_unknown_size_masters_closed_at_the_junk");
            continue;
        }
        if before != eb {
            c.violation(format!("C14/items-before-junk-changed/{}", sig_tail), "items before the junk differ from the undamaged parse", wit("items before junk changed", &before, &errors, &after, &recovered));
        } else if more_errors > 0 || errors.len() != 1 {
            c.violation(format!("C14/more-than-one-error/{}/{}", errors.last().map(|e| e.kind()).unwrap_or("?"), sig_tail), format!("{} errors were reported: {}", errors.len(), errors.iter().map(|e| e.short()).collect::<Vec<_>>().join("; ")), wit("more than one error", &before, &errors, &after, &recovered));
        } else if after != ea {
            // Ends of masters: offsets of masters that started before b are unchanged -> handled in exp_after via o >= b
            let idx = after.iter().zip(ea.iter()).position(|(a, e)| a != e).unwrap_or(after.len().min(ea.len()));
            c.violation(
                format!("C14/items-after-recovery-differ/{}", sig_tail),
                format!("after recovery item {} is {} but the undamaged parse (shifted by {}) has {}", idx, after.get(idx).map(|x| format!("{}@{}", x.0.short(), x.1)).unwrap_or("<none>".into()), jl, ea.get(idx).map(|x| format!("{}@{}", x.0.short(), x.1)).unwrap_or("<none>".into())),
                wit("remaining items differ", &before, &errors, &after, &recovered),
            );
        }
        let _ = k;
        if depth >= 1 {
            c.nontrivial(mix(hash_str(jclass), mix(depth.min(5) as u64, mix(jl.min(20) as u64 / 4, fits as u64))));
        }
    }
    if c.idx % 173 == 2 {
        c.set_sample(inp.to_json().set("junk_byte_classes", J::u(junk_bytes.len())).set("boundaries", J::u(lay.len() - 1)));
    }
}
