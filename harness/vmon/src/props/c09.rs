//! C09 — writer output does not depend on how the same document is presented.

use super::common::*;
use crate::gen;
use crate::io::ScriptedWrite;
use crate::json::{hex_short, J};
use crate::prng::mix;
use crate::refcodec::{layout_guided, tree_short, Node, SizeOpt};
use crate::runner::{Case, PropDef};
use crate::spec::Item;
use crate::wr::{calls_from_tree, calls_json, run_calls, WCall, WRun};

pub static DEF: PropDef = PropDef {
    id: "C09",
    level: "exploration",
    rule: "each case: a random conformant tree with per-element options (default / width 1-8 / unknown) is written by the real writer in several presentations and the destination byte streams are compared: (a) no Full items vs every collapsible master as Full vs a random collapse set; (a') every unknown-size master whose descendants use default options as ONE Full item with the unknown-size option vs Start(unknown), children, End; (b) deprecated write_unknown_size vs the option form (bytes and per-call destination lengths), and write_raw(id, data) vs write(RawTag(id, data)); (c) the output is decoded with the reference header decoder guided by the tree: every explicit width must be used exactly, unknown-size masters must carry an all-ones size, and the (id bytes, payload bytes) sequence must equal that of the all-default encoding; (d) four short-write schedules of the destination (1 byte per call, random limits, Interrupted injections) must deliver identical bytes. distinct = (tree fingerprint, collapse-set hash); non-trivial iff >=2 masters and at least one collapse or non-default option.",
    assumptions: &["cases in which the writer rejects the tree are vacuous (counted)", "Full items are only used for masters whose descendants all use default options (Full children cannot carry options)"],
    cases_quick: 120_000,
    cases_thorough: 1_500_000,
    floors: &[("presentations_compared", 6000), ("distinct_nontrivial", 300), ("explicit_width_fields_checked", 500)],
    exhaustive_note: None,
    run,
};

fn strip_opts(nodes: &[Node]) -> Vec<Node> {
    nodes.iter().map(|n| Node { item: n.item.clone(), children: strip_opts(&n.children), opt: SizeOpt::Default }).collect()
}

fn id_payload_seq(bytes: &[u8], tree: &[Node]) -> Result<Vec<(Vec<u8>, Vec<u8>)>, String> {
    let lay = layout_guided(bytes, tree)?;
    Ok(lay.iter().map(|l| (bytes[l.off..l.off + l.id_len].to_vec(), if l.is_master { vec![] } else { bytes[l.data_start..l.end].to_vec() })).collect())
}

fn run(c: &mut Case) {
    let o = DocOpts { p_width: 20, p_unknown: 12, raw: c.rng.chance(1, 5), shaping: true, full_specs: false };
    let doc = gen_doc(&mut c.rng, c.tier, &o);
    doc.spec.install();
    if doc.tree.is_empty() {
        return;
    }
    let wit = |calls: &[WCall], a: &[u8], b: &[u8], what: &str| doc_json(&doc).set("clause", J::s(what)).set("calls", calls_json(calls, 80)).set("bytes_a", J::s(hex_short(a, 400))).set("bytes_b", J::s(hex_short(b, 400)));
    // baseline: no collapse, option form
    let base_calls = calls_from_tree(&doc.tree, &mut |_| false, false);
    let base = run_calls(&base_calls, ScriptedWrite::new());
    c.eval();
    if !base.all_ok() {
        if let Some((i, crate::wr::WRes::Caught(cg))) = base.first_fail() {
            c.violation(format!("C09/writer-{}", cg.sig()), format!("call {} {}", i, cg.text()), wit(&base_calls, &base.bytes, &[], "baseline"));
        } else {
            c.count("vacuous_writer_rejected");
        }
        return;
    }
    let (m, u, w, _) = gen::tree_stats(&doc.tree);
    // (a) collapse variants
    let mut collapse_hash = 0u64;
    let mut any_collapse = false;
    for variant in 0..3 {
        let mut r = c.rng.fork();
        let mut n_collapsed = 0;
        let calls = calls_from_tree(
            &doc.tree,
            &mut |_| {
                let yes = match variant {
                    0 => true,
                    1 => r.chance(1, 2),
                    _ => r.chance(1, 4),
                };
                if yes {
                    n_collapsed += 1;
                }
                yes
            },
            false,
        );
        if n_collapsed == 0 {
            continue;
        }
        any_collapse = true;
        collapse_hash = mix(collapse_hash, crate::prng::hash_str(&format!("{:?}", calls.iter().map(|x| matches!(x, WCall::Write(crate::spec::Item::Full(..), _)) as u8).collect::<Vec<_>>())));
        let run = run_calls(&calls, ScriptedWrite::new());
        c.eval();
        c.count("presentations_compared");
        if !run.all_ok() {
            let r = run.first_fail().map(|x| x.1.short()).unwrap_or(run.fin.short());
            c.violation(format!("C09/full-rejected/{}", run.first_fail().map(|x| x.1.kind()).unwrap_or(run.fin.kind())), format!("tree accepted as Start/End is rejected when masters are presented as Full: {}", r), wit(&calls, &base.bytes, &run.bytes, "a: Full vs Start/End"));
            continue;
        }
        if run.bytes != base.bytes {
            let at = run.bytes.iter().zip(base.bytes.iter()).position(|(x, y)| x != y).unwrap_or(run.bytes.len().min(base.bytes.len()));
            c.violation("C09/full-vs-startend/bytes-differ", format!("Full presentation differs from Start/End at byte {}", at), wit(&calls, &base.bytes, &run.bytes, "a: Full vs Start/End"));
        }
    }
    // (a'') closing by into_inner() is a presentation too: the trailing run of End calls is left out and the masters
    // still open are closed by into_inner() (flush() first in half of the cases); the bytes must be those of the
    // explicit Ends (an unknown-size master has no closing bytes, a known-size one gets its size either way)
    {
        let mut calls = base_calls.clone();
        let mut dropped = 0;
        while matches!(calls.last(), Some(WCall::Write(Item::End(_), _))) {
            calls.pop();
            dropped += 1;
        }
        if dropped > 0 {
            if c.rng.chance(1, 2) {
                calls.push(WCall::Flush);
            }
            let run = run_calls(&calls, ScriptedWrite::new());
            c.eval();
            c.count("presentations_compared");
            c.count("closed_by_into_inner_presentations");
            if !run.all_ok() {
                let r = run.first_fail().map(|x| x.1.short()).unwrap_or(run.fin.short());
                c.violation("C09/implicit-close-rejected", format!("the document is accepted with explicit Ends but not when into_inner()/flush() closes the last {} masters: {}", dropped, r), wit(&calls, &base.bytes, &run.bytes, "a'': closed by into_inner"));
            } else if run.bytes != base.bytes {
                let at = run.bytes.iter().zip(base.bytes.iter()).position(|(x, y)| x != y).unwrap_or(run.bytes.len().min(base.bytes.len()));
                c.violation("C09/implicit-close/bytes-differ", format!("closing the last {} masters through into_inner()/flush() gives different bytes than their explicit Ends (first difference at byte {}, {} vs {} bytes)", dropped, at, run.bytes.len(), base.bytes.len()), wit(&calls, &base.bytes, &run.bytes, "a'': closed by into_inner"));
            }
        }
    }
    // (a') an unknown-size master presented as ONE Full item with the unknown-size option (quantifier: every way of
    // collapsing x every per-element option). Reference: Start(unknown), the children, End — the baseline.
    if u > 0 {
        fn all_default(n: &Node) -> bool {
            n.opt == SizeOpt::Default && n.children.iter().all(all_default)
        }
        fn emit(n: &Node, as_full: bool, out: &mut Vec<WCall>, used: &mut usize) {
            if !n.is_master() {
                out.push(WCall::Write(n.item.clone(), n.opt));
                return;
            }
            if n.opt == SizeOpt::Unknown && n.children.iter().all(all_default) {
                *used += 1;
                if as_full {
                    out.push(WCall::Write(n.to_full(), SizeOpt::Unknown));
                } else {
                    // what the unchanged writer is known to make of it: a bare Start, children ignored, nothing closed
                    out.push(WCall::Write(crate::spec::Item::Start(n.id()), SizeOpt::Unknown));
                }
                return;
            }
            out.push(WCall::Write(crate::spec::Item::Start(n.id()), n.opt));
            for ch in &n.children {
                emit(ch, as_full, out, used);
            }
            out.push(WCall::Write(crate::spec::Item::End(n.id()), SizeOpt::Default));
        }
        let (mut calls, mut bare, mut used, mut used2) = (Vec::new(), Vec::new(), 0usize, 0usize);
        for n in &doc.tree {
            emit(n, true, &mut calls, &mut used);
            emit(n, false, &mut bare, &mut used2);
        }
        if used > 0 {
            let run = run_calls(&calls, ScriptedWrite::new());
            c.eval();
            c.count("presentations_compared");
            c.count("full_with_unknown_size_presentations");
            if run.bytes != base.bytes || !run.all_ok() {
                let as_bare = run_calls(&bare, ScriptedWrite::new());
                let same_as_bare_start = as_bare.bytes == run.bytes && as_bare.results.iter().map(|r| r.kind()).collect::<Vec<_>>() == run.results.iter().map(|r| r.kind()).collect::<Vec<_>>();
                let at = run.bytes.iter().zip(base.bytes.iter()).position(|(x, y)| x != y).unwrap_or(run.bytes.len().min(base.bytes.len()));
                c.violation(
                    if same_as_bare_start { "C09/full-with-unknown-size/treated-as-bare-start".to_string() } else { format!("C09/full-with-unknown-size/{}", if run.all_ok() { "bytes-differ" } else { "rejected" }) },
                    format!("a master written as one Full item with the unknown-size option does not give the bytes of Start(unknown), children, End (first difference at byte {}; {} of {} calls accepted){}", at, run.results.iter().filter(|r| r.is_ok()).count(), calls.len(), if same_as_bare_start { ": the item is handled like a bare Start — its children are dropped and the master stays open" } else { "" }),
                    wit(&calls, &base.bytes, &run.bytes, "a': Full with unknown size vs Start/children/End"),
                );
            }
        }
    }
    // (b) deprecated unknown-size call
    if u > 0 {
        let calls = calls_from_tree(&doc.tree, &mut |_| false, true);
        let run = run_calls(&calls, ScriptedWrite::new());
        c.eval();
        c.count("presentations_compared");
        c.count("deprecated_call_compared");
        if !run.all_ok() {
            c.violation("C09/deprecated-rejected", "deprecated write_unknown_size rejected what the option form accepted", wit(&calls, &base.bytes, &run.bytes, "b: deprecated"));
        } else if run.bytes != base.bytes {
            c.violation("C09/deprecated/bytes-differ", "deprecated write_unknown_size produced different bytes", wit(&calls, &base.bytes, &run.bytes, "b: deprecated"));
        } else if run.lens != base.lens {
            let i = run.lens.iter().zip(base.lens.iter()).position(|(x, y)| x != y).unwrap_or(0);
            c.violation("C09/deprecated/visibility-differs", format!("destination length after call {} differs between deprecated and option form ({} vs {})", i, run.lens[i], base.lens[i]), wit(&calls, &base.bytes, &run.bytes, "b: deprecated visibility"));
        }
    }
    // (b') write_raw(id, data) is just another presentation of a raw tag written through write()
    if base_calls.iter().any(|x| matches!(x, WCall::Write(crate::spec::Item::Raw(..), SizeOpt::Default))) {
        let calls: Vec<WCall> = base_calls.iter().map(|x| match x { WCall::Write(crate::spec::Item::Raw(id, d), SizeOpt::Default) => WCall::WriteRaw(*id, d.clone()), other => other.clone() }).collect();
        let run = run_calls(&calls, ScriptedWrite::new());
        c.eval();
        c.count("presentations_compared");
        c.count("write_raw_presentations_compared");
        if !run.all_ok() {
            c.violation("C09/write_raw-rejected", "write_raw() rejected what write(RawTag) accepted", wit(&calls, &base.bytes, &run.bytes, "b': write_raw"));
        } else if run.bytes != base.bytes {
            c.violation("C09/write_raw/bytes-differ", "write_raw() produced different bytes than write(RawTag)", wit(&calls, &base.bytes, &run.bytes, "b': write_raw"));
        } else if run.lens != base.lens {
            let i = run.lens.iter().zip(base.lens.iter()).position(|(x, y)| x != y).unwrap_or(0);
            c.violation("C09/write_raw/visibility-differs", format!("destination length after call {} differs between write_raw and write(RawTag) ({} vs {})", i, run.lens[i], base.lens[i]), wit(&calls, &base.bytes, &run.bytes, "b': write_raw visibility"));
        }
    }
    // (c) widths honoured exactly; ids/payloads unchanged relative to the default encoding
    match layout_guided(&base.bytes, &doc.tree) {
        Err(e) => c.violation("C09/output-not-decodable", format!("reference decoder cannot walk the output: {}", e), wit(&base_calls, &base.bytes, &[], "c")),
        Ok(lay) => {
            // pre-order nodes
            let mut nodes: Vec<&Node> = Vec::new();
            for n in &doc.tree {
                n.visit(&mut |x, _| nodes.push(x), 0);
            }
            for (l, n) in lay.iter().zip(nodes.iter()) {
                match n.opt {
                    SizeOpt::Width(wd) => {
                        c.count("explicit_width_fields_checked");
                        if l.size_len != wd || l.size.is_none() {
                            c.violation(format!("C09/width-not-honoured/requested-w{}/{}", wd, if n.is_master() { "master" } else { "leaf" }), format!("element {:x} at {}: size field has {} bytes, requested {}", l.id, l.off, l.size_len, wd), wit(&base_calls, &base.bytes, &[], "c: width"));
                        }
                    }
                    SizeOpt::Unknown => {
                        c.count("unknown_size_fields_checked");
                        if l.size.is_some() {
                            c.violation("C09/unknown-not-honoured", format!("master {:x} at {} was requested with unknown size but carries size {:?}", l.id, l.off, l.size), wit(&base_calls, &base.bytes, &[], "c: unknown"));
                        }
                    }
                    SizeOpt::Default => {}
                }
            }
            if u + w > 0 {
                let plain = strip_opts(&doc.tree);
                let pcalls = calls_from_tree(&plain, &mut |_| false, false);
                let prun = run_calls(&pcalls, ScriptedWrite::new());
                c.eval();
                if prun.all_ok() {
                    match (id_payload_seq(&base.bytes, &doc.tree), id_payload_seq(&prun.bytes, &plain)) {
                        (Ok(a), Ok(b)) => {
                            c.count("id_payload_sequences_compared");
                            if a != b {
                                let i = a.iter().zip(b.iter()).position(|(x, y)| x != y).unwrap_or(0);
                                c.violation("C09/options-change-id-or-payload", format!("element #{} has different id/payload bytes with options than with defaults", i), wit(&base_calls, &base.bytes, &prun.bytes, "c: ids/payloads"));
                            }
                        }
                        (_, Err(e)) => c.violation("C09/output-not-decodable/default", format!("default encoding not decodable: {}", e), wit(&pcalls, &prun.bytes, &[], "c")),
                        _ => {}
                    }
                }
            }
        }
    }
    // (d) short-write schedules
    let sinks: Vec<(&str, ScriptedWrite)> = vec![
        ("1-byte", ScriptedWrite::new().with_limits(vec![1])),
        ("random-limits", ScriptedWrite::new().with_limits((0..7).map(|_| c.rng.urange(1, 9)).collect())),
        ("interrupted", ScriptedWrite::new().with_interrupts(2).with_limits(vec![3, 1, 5])),
        ("interrupted-3", ScriptedWrite::new().with_interrupts(3)),
    ];
    for (name, sink) in sinks {
        let run: WRun = run_calls(&base_calls, sink);
        c.eval();
        c.count("presentations_compared");
        c.add("dest_write_calls", run.dest_calls as u64);
        let io_failed = run.results.iter().chain(std::iter::once(&run.fin)).any(|r| matches!(r, crate::wr::WRes::Err(crate::wr::WErr::Io { .. })));
        if io_failed && name.starts_with("interrupted") {
            // ErrorKind::Interrupted is an error a destination returns, not a partial write: a writer that reports it
            // instead of retrying is outside what the statement quantifies over
            c.count("vacuous_interrupted_reported_as_write_error");
            continue;
        }
        if !run.all_ok() {
            let r = run.first_fail().map(|x| x.1.short()).unwrap_or(run.fin.short());
            c.violation(format!("C09/short-write-error/{}", name), format!("writer failed with a destination that accepts partial writes ({}): {}", name, r), wit(&base_calls, &base.bytes, &run.bytes, "d: short writes"));
        } else if run.bytes != base.bytes {
            c.violation(format!("C09/short-write-bytes/{}", name), format!("delivered bytes depend on the destination's write splitting ({})", name), wit(&base_calls, &base.bytes, &run.bytes, "d: short writes"));
        } else if run.lens != base.lens {
            c.violation(format!("C09/short-write-visibility/{}", name), "destination length after some call differs with partial writes", wit(&base_calls, &base.bytes, &run.bytes, "d: short writes"));
        }
    }
    if m >= 2 && (any_collapse || u + w > 0) {
        c.nontrivial(mix(gen::tree_fingerprint(&doc.tree), collapse_hash));
    }
    let sample_due = c.idx % 701 == 1;
    if sample_due {
        set_sample_c09(c, &doc, &base.bytes, m, u, w);
    }
    // (c') an explicit width is honoured exactly or the call is refused — never silently widened: a Utf8 / Binary element
    // allowed at some point of a fresh document is written there with a 1- or 2-byte size field and a payload on either
    // side of what that field can describe (126 / 127 / 128 / 200 bytes, 16382 / 16383 / 16384 bytes; the all-ones value is
    // reserved). It must come back rejected when it does not fit, and with exactly that field width when it does.
    if c.idx % 3 == 1 {
        let o2 = DocOpts { p_width: 0, p_unknown: 10, raw: false, shaping: false, full_specs: false };
        let d2 = gen_doc(&mut c.rng, c.tier, &o2);
        d2.spec.install();
        let calls = calls_from_tree(&d2.tree, &mut |_| false, false);
        if !calls.is_empty() {
            let pos = c.rng.urange(0, calls.len());
            let chain: Vec<u64> = super::c19::shadow_at(&calls, pos).iter().map(|x| x.0).collect();
            let cands: Vec<(u64, crate::spec::Ty)> = d2.spec.allowed_under(&chain).into_iter().filter(|e| matches!(e.ty, crate::spec::Ty::S | crate::spec::Ty::B)).map(|e| (e.id, e.ty)).collect();
            if !cands.is_empty() {
                let (id, ty) = *c.rng.pick(&cands);
                let (w, len) = *c.rng.pick(&[(1usize, 126usize), (1, 127), (1, 128), (1, 200), (2, 16382), (2, 16383), (2, 16384), (1, 5), (2, 300)]);
                let item = if ty == crate::spec::Ty::S { Item::S(id, "x".repeat(len)) } else { Item::B(id, c.rng.bytes(len)) };
                let mut h: Vec<WCall> = calls[..pos].to_vec();
                h.push(WCall::Write(item.clone(), SizeOpt::Width(w)));
                let run = run_calls(&h, ScriptedWrite::new());
                c.eval();
                c.count("narrow_width_probes");
                let fits = (len as u64) < (1u64 << (7 * w)) - 1;
                if run.results[..pos].iter().all(|r| r.is_ok()) {
                    let r = &run.results[pos];
                    let wit2 = |m: &str| doc_json(&d2).set("clause", J::s("c': width honoured or refused")).set("calls", calls_json(&h, 60)).set("problem", J::s(m));
                    match r {
                        crate::wr::WRes::Caught(cg) => c.violation(format!("C09/narrow-width/writer-{}", cg.sig()), cg.text(), wit2("panic")),
                        crate::wr::WRes::Ok if !fits => c.violation(
                            format!("C09/width-not-honoured/too-narrow-accepted/w{}/{}", w, if ty == crate::spec::Ty::S { "utf8" } else { "binary" }),
                            format!("a {}-byte {} was accepted with a {}-byte size field, which cannot describe it", len, if ty == crate::spec::Ty::S { "Utf8 element" } else { "Binary element" }, w),
                            wit2("accepted although the requested width cannot hold the size"),
                        ),
                        crate::wr::WRes::Err(crate::wr::WErr::Io { .. }) => {}
                        crate::wr::WRes::Err(e) if fits => c.violation(format!("C09/width-rejected-although-it-fits/w{}", w), format!("a {}-byte element with a {}-byte size field was rejected: {:?}", len, w, e), wit2("rejected although it fits")),
                        _ => {}
                    }
                }
            }
        }
    }
    // (c'') the same for a master: started with a 1- or 2-byte size field and filled beyond what that field can describe,
    // its End (and a flush()) must be refused, not answered with a wider field
    if c.idx % 3 == 2 {
        let o2 = DocOpts { p_width: 0, p_unknown: 10, raw: false, shaping: false, full_specs: false };
        let d2 = gen_doc(&mut c.rng, c.tier, &o2);
        d2.spec.install();
        let calls = calls_from_tree(&d2.tree, &mut |_| false, false);
        if !calls.is_empty() {
            let pos = c.rng.urange(0, calls.len());
            let chain: Vec<u64> = super::c19::shadow_at(&calls, pos).iter().map(|x| x.0).collect();
            let ms: Vec<u64> = d2.spec.allowed_under(&chain).into_iter().filter(|e| e.ty == crate::spec::Ty::Master).map(|e| e.id).collect();
            if !ms.is_empty() {
                let m_id = *c.rng.pick(&ms);
                let (w, len) = *c.rng.pick(&[(1usize, 125usize), (1, 126), (1, 200), (2, 16381), (2, 16384), (1, 20)]);
                let mut h: Vec<WCall> = calls[..pos].to_vec();
                h.push(WCall::Write(Item::Start(m_id), SizeOpt::Width(w)));
                h.push(WCall::Write(Item::B(crate::spec::VOID_ID, c.rng.bytes(len)), SizeOpt::Default));
                let closer = if c.rng.chance(1, 4) { WCall::Flush } else { WCall::Write(Item::End(m_id), SizeOpt::Default) };
                h.push(closer.clone());
                let run = run_calls(&h, ScriptedWrite::new());
                c.eval();
                c.count("narrow_width_master_probes");
                // content = Void header (1 id byte + minimal size field) + payload
                let content = 1 + crate::refcodec::min_size_width(len as u64).unwrap_or(8) as u64 + len as u64;
                let fits = content < (1u64 << (7 * w)) - 1;
                if run.results[..pos + 2].iter().all(|r| r.is_ok()) && !fits {
                    if let crate::wr::WRes::Ok = run.results[pos + 2] {
                        c.violation(
                            format!("C09/width-not-honoured/too-narrow-accepted/w{}/master-{}", w, if closer == WCall::Flush { "flush" } else { "end" }),
                            format!("a master started with a {}-byte size field was closed over {} bytes of content, which that field cannot describe", w, content),
                            doc_json(&d2).set("clause", J::s("c'': width honoured or refused (master)")).set("calls", calls_json(&h, 60)),
                        );
                    }
                }
            }
        }
    }
    // (e) the size option never decides whether a master item is accepted ("an explicit width and, like it, unknown size
    // affect size fields only"): one master of a fresh document (half of them over specifications with recursive masters)
    // is handed over as one Full item — well-formed, or with a nested master left open (also one of its own id), or with a
    // stray End among its children — with the default option, an 8-byte width and unknown size, after the same accepted
    // prefix of calls.  Whatever the writer decides, it has to decide the same three times.
    if c.idx % 3 == 0 {
        let o2 = DocOpts { p_width: 0, p_unknown: 0, raw: false, shaping: false, full_specs: c.rng.chance(1, 2) };
        let d2 = gen_doc(&mut c.rng, c.tier, &o2);
        d2.spec.install();
        let mut count = 0u64;
        let _ = calls_from_tree(&d2.tree, &mut |_| { count += 1; false }, false);
        if count > 0 {
            let target = c.rng.below(count);
            let mut i = 0u64;
            let calls = calls_from_tree(&d2.tree, &mut |_| { let y = i == target; i += 1; y }, false);
            if let Some(pos) = calls.iter().position(|x| matches!(x, WCall::Write(Item::Full(..), _))) {
                if let WCall::Write(Item::Full(id, kids0), _) = &calls[pos] {
                    let id = *id;
                    let mut kids = kids0.clone();
                    let at = c.rng.urange(0, kids.len());
                    let mut other: Option<Item> = None;
                    let shape = match c.rng.below(8) {
                        0 => "well-formed",
                        6 => {
                            // some master of the specification, allowed here or not, as a bare Start / an empty Full
                            let ms = d2.spec.masters();
                            other = Some(Item::Start(*c.rng.pick(&ms)));
                            "some-master-start"
                        }
                        7 => {
                            let ms = d2.spec.masters();
                            other = Some(Item::Full(*c.rng.pick(&ms), vec![]));
                            "some-master-empty-full"
                        }
                        1 | 2 => {
                            if let Some(j) = kids.iter().position(|k| matches!(k, Item::Full(..))) {
                                if let Item::Full(sid, sk) = kids[j].clone() {
                                    kids.splice(j..j + 1, std::iter::once(Item::Start(sid)).chain(sk.into_iter()));
                                }
                                "nested-master-left-open"
                            } else {
                                kids.insert(at, Item::Start(id));
                                "own-id-start-left-open"
                            }
                        }
                        3 => {
                            kids.insert(at, Item::Start(id));
                            "own-id-start-left-open"
                        }
                        4 => {
                            kids.insert(at, Item::End(id));
                            "stray-own-end"
                        }
                        _ => {
                            let ms = d2.spec.masters();
                            kids.insert(at, Item::End(*c.rng.pick(&ms)));
                            "stray-end"
                        }
                    };
                    let item = other.unwrap_or(Item::Full(id, kids.clone()));
                    let mut verdicts: Vec<(SizeOpt, bool, String)> = Vec::new();
                    let mut unknown_run: Option<WRun> = None;
                    for opt in [SizeOpt::Default, SizeOpt::Width(8), SizeOpt::Unknown] {
                        let mut h: Vec<WCall> = calls[..pos].to_vec();
                        h.push(WCall::Write(item.clone(), opt));
                        let run = run_calls(&h, ScriptedWrite::new());
                        c.eval();
                        c.count("option_acceptance_probes");
                        if run.results[..pos].iter().any(|r| !r.is_ok()) {
                            verdicts.clear();
                            break;
                        }
                        if let Some(crate::wr::WRes::Caught(cg)) = run.results.get(pos) {
                            c.violation(format!("C09/option-acceptance/writer-{}", cg.sig()), cg.text(), doc_json(&d2).set("calls", calls_json(&h, 60)));
                            verdicts.clear();
                            break;
                        }
                        verdicts.push((opt, run.results[pos].is_ok(), run.results[pos].short()));
                        if opt == SizeOpt::Unknown {
                            unknown_run = Some(run);
                        }
                    }
                    // (b'') "the deprecated unknown-size call equals the option-based one" — for whatever item it is given,
                    // accepted or not: same verdict, same bytes in the destination after the call and after into_inner()
                    if let (3, Some(ur)) = (verdicts.len(), &unknown_run) {
                        let mut h: Vec<WCall> = calls[..pos].to_vec();
                        h.push(WCall::DeprecatedUnknown(item.clone()));
                        let dr = run_calls(&h, ScriptedWrite::new());
                        c.eval();
                        c.count("deprecated_vs_option_on_any_item");
                        let what = if let Some(crate::wr::WRes::Caught(cg)) = dr.results.get(pos) {
                            Some(format!("deprecated-{}", cg.sig()))
                        } else if dr.results[pos].kind() != ur.results[pos].kind() {
                            Some(format!("verdict-differs/option-{}/deprecated-{}", ur.results[pos].kind(), dr.results[pos].kind()))
                        } else if dr.lens != ur.lens {
                            Some("visibility-differs".to_string())
                        } else if dr.fin.kind() != ur.fin.kind() || dr.bytes != ur.bytes {
                            Some("final-bytes-differ".to_string())
                        } else {
                            None
                        };
                        if let Some(w) = what {
                            c.violation(
                                format!("C09/deprecated-vs-option/{}/{}", shape, w),
                                format!("write_unknown_size(item) and write_advanced(item, unknown size) after the same calls: option form {} (into_inner {} , {} bytes), deprecated form {} (into_inner {}, {} bytes)", ur.results[pos].short(), ur.fin.short(), ur.bytes.len(), dr.results[pos].short(), dr.fin.short(), dr.bytes.len()),
                                doc_json(&d2).set("clause", J::s("b'': deprecated call vs option form on any item")).set("calls", calls_json(&h, 60)).set("item_shape", J::s(shape)).set("bytes_option", J::s(hex_short(&ur.bytes, 300))).set("bytes_deprecated", J::s(hex_short(&dr.bytes, 300))),
                            );
                        }
                    }
                    if verdicts.len() == 3 {
                        c.count(&format!("option_acceptance_{}_{}", shape, if verdicts[0].1 { "accepted" } else { "rejected" }));
                        if verdicts.iter().any(|v| v.1 != verdicts[0].1) {
                            let mut h: Vec<WCall> = calls[..pos].to_vec();
                            h.push(WCall::Write(item.clone(), SizeOpt::Default));
                            c.violation(
                                format!("C09/option-changes-acceptance/{}/default-{}/width8-{}/unknown-{}", shape, if verdicts[0].1 { "ok" } else { "err" }, if verdicts[1].1 { "ok" } else { "err" }, if verdicts[2].1 { "ok" } else { "err" }),
                                format!("the same Full item after the same calls is {} with the default option, {} with an 8-byte width and {} with unknown size", verdicts[0].2, verdicts[1].2, verdicts[2].2),
                                doc_json(&d2).set("clause", J::s("e: acceptance independent of the size option")).set("calls", calls_json(&h, 60)).set("full_shape", J::s(shape)),
                            );
                        }
                    }
                }
            }
        }
    }
}

fn set_sample_c09(c: &mut Case, doc: &crate::props::common::Doc, base_bytes: &[u8], m: usize, u: usize, w: usize) {
    c.set_sample(J::obj().set("tree", J::s(tree_short(&doc.tree))).set("spec", doc.spec.to_json()).set("bytes", J::s(hex_short(base_bytes, 200))).set("masters", J::u(m)).set("unknown", J::u(u)).set("widths", J::u(w)));
}
