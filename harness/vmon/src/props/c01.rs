//! C01 — write -> read round trip reproduces every accepted tag sequence exactly.

use super::common::*;
use crate::io::ScriptedWrite;
use crate::json::J;
use crate::prng::mix;
use crate::gen;
use crate::rd::{parse_slice, Ev, MaxSz, RCfg, ALLOW_IDS};
use crate::refcodec::flat;
use crate::runner::{Case, PropDef};
use crate::spec::items_json;

pub static DEF: PropDef = PropDef {
    id: "C01",
    level: "exploration",
    rule: "each case: pick a specification (zoo or random: ids of 1-8 bytes, depth <=6, global leaves, optionally global masters), generate a random conformant tree (reference path semantics) with boundary-lattice payloads (0,1,2,126-128,16382-16384 bytes; integer/float boundary values), optionally pad a master with Void to content size 126/127/128/16382/16383/16384, optionally make the last element empty, optionally add raw tags; assign per-element options (default / width 1-8 / unknown size); present it to the real TagWriter with a random choice of Full-collapsing and deprecated unknown-size calls; if every call is accepted, read the emitted bytes with the real strict TagIterator and compare the item sequence with the flattened tree (floats by bit pattern). Case 6 of every run: a stream longer than 2^32 bytes (about 4100 Clusters of 1 MiB inside an unknown-size Segment) is written into a validating sink that compares every byte with the reference layout and holds nothing. Cases 0-5 (thorough; the two 2^28-1 cases also in the quick tier): giant boundary cases — a Binary payload / a master's content of exactly 2^28-2, 2^28-1 and 2^28 bytes (the 4-/5-byte size-field boundary) written with default widths, bytes compared with the reference encoding and read back. distinct = tree fingerprint (shape, ids, options, payload length classes) x presentation; non-trivial iff >=2 masters and (a boundary-class payload length, a padded master, an empty last element, or a non-default option).",
    assumptions: &[
        "the harness tree generator only produces specification-conformant trees per the reference path matcher (spec.rs::ref_path_match)",
        "cases in which the writer rejects a call are vacuous for C01 (counted as writer_rejected_*; acceptance itself is C11's subject)",
        "unknown size is only requested where reading is unambiguous (not on global masters, not directly before a global/raw element)",
    ],
    cases_quick: 250_000,
    cases_thorough: 3_000_000,
    floors: &[("roundtrips_compared", 2000), ("distinct_nontrivial", 300)],
    exhaustive_note: None,
    run,
};

fn run(c: &mut Case) {
    if c.tier == crate::runner::Tier::Thorough && c.idx < super::giant::GIANT_CASES {
        super::giant::run_giant(c, "C01", c.idx);
        return;
    }
    if c.tier == crate::runner::Tier::Quick && c.idx < 2 {
        // quick tier: only the two cases that sit exactly on the boundary (leaf payload / master content of 2^28-1 bytes)
        super::giant::run_giant(c, "C01", [1u64, 4][c.idx as usize]);
        return;
    }
    if c.idx == super::giant::GIANT_CASES {
        super::huge::run_huge_write(c);
        return;
    }
    let mut o = DocOpts::MIXED;
    o.full_specs = c.rng.chance(1, 4);
    let doc = gen_doc(&mut c.rng, c.tier, &o);
    doc.spec.install();
    let expected = flat(&doc.tree);
    if expected.is_empty() {
        c.count("empty_trees");
        return;
    }
    let (calls, run) = write_doc(&mut c.rng, &doc.tree, ScriptedWrite::new());
    c.eval();
    if let Some((i, r)) = run.first_fail() {
        if let crate::wr::WRes::Caught(cg) = r {
            c.violation(format!("C01/writer-{}", cg.sig()), format!("writer call {} ({}) {}", i, calls[i].short(), cg.text()), doc_json_full(&doc, &calls, &run.bytes));
            return;
        }
        c.count(&format!("writer_rejected_{}", r.kind()));
        return;
    }
    if !run.fin.is_ok() {
        c.count(&format!("writer_rejected_at_finish_{}", run.fin.kind()));
        return;
    }
    let cfg = RCfg { allow: if doc.has_raw { ALLOW_IDS } else { 0 }, buffered: vec![], capacity: None, max_size: MaxSz::Default, eof_end: true };
    let p = if c.rng.chance(3, 4) {
        parse_slice(&run.bytes, &cfg)
    } else {
        // a quarter of the read-backs go through a scripted source (short reads, small initial capacity)
        let src = super::c05::random_source(&mut c.rng, &run.bytes);
        let mut cfg2 = cfg.clone();
        cfg2.capacity = *c.rng.pick(&[None, Some(0usize), Some(16), Some(100)]);
        c.count("readbacks_with_short_reads");
        crate::rd::parse_scripted(src, &cfg2).0
    };
    c.count("roundtrips_compared");
    c.add("items_compared", expected.len() as u64);
    let got = p.values();
    let classes = flat_classes(&doc.tree);
    let diff = first_diff(&expected, &got);
    if diff.is_some() || !p.clean() {
        let k = diff.unwrap_or(expected.len());
        let cls = classes.get(k).cloned().unwrap_or("end-of-stream".into());
        let kind = match &p.end {
            Ev::Err(e) if k >= got.len() => format!("error-{}", e.kind()),
            Ev::Caught(cg) if k >= got.len() => cg.sig(),
            _ if k < got.len() => "item-differs".to_string(),
            Ev::None => "stream-ends-early".to_string(),
            _ => "other".to_string(),
        };
        c.violation(
            format!("C01/{}/{}", kind, cls),
            format!("read-back diverges at item {} (expected {}, got {}; stream end: {})", k, expected.get(k).map(|i| i.short()).unwrap_or("<end>".into()), got.get(k).map(|i| i.short()).unwrap_or("<none>".into()), p.end.short()),
            doc_json_full(&doc, &calls, &run.bytes).set("expected_items", items_json(&expected, 40)).set("read", p.to_json(40)).set("diverges_at", J::u(k)),
        );
    }
    let (m, u, w, d) = gen::tree_stats(&doc.tree);
    c.max("depth", d as u64);
    c.add("masters_written", m as u64);
    c.add("unknown_size_masters", u as u64);
    c.add("explicit_widths", w as u64);
    if doc.has_raw {
        c.count("docs_with_raw_tags");
    }
    let boundary = classes.iter().any(|s| s.contains("len0") || s.contains("len126") || s.contains("len127") || s.contains("len128") || s.contains("len1638"));
    if m >= 2 && (boundary || doc.padded.is_some() || doc.last_empty || u + w > 0) {
        c.nontrivial(mix(gen::tree_fingerprint(&doc.tree), crate::prng::hash_str(&format!("{:?}", calls.iter().map(|x| matches!(x, crate::wr::WCall::Write(crate::spec::Item::Full(..), _)) as u8).collect::<Vec<_>>()))));
    }
    if c.idx % 997 == 0 || c.idx < 2 {
        c.set_sample(doc_json_full(&doc, &calls, &run.bytes).set("read_back", p.to_json(12)));
    }
}
