//! Streams longer than 2^32 bytes (thorough tier only): offsets, known-size master ranges and the writer's streaming
//! path beyond the 32-bit boundary. Nothing of that size is held in memory: the reader is fed by a generating source,
//! the writer writes into a validating sink.
//!
//! Layout (Z_TEST spec):  Segment(known size, 8-byte field)[ n x Block(p bytes) , TrackType(5) ]   Ebml[]      (reader)
//!                        Segment(unknown size)[ n x Cluster[Block(p bytes)] , TrackType(5) ]                  (writer)
//! with n * p a little above 2^32.

use crate::json::J;
use crate::obs::guard;
use crate::runner::Case;
use crate::spec::{DVal, DynTag};
use ebml_iterable::specs::Master;
use ebml_iterable::{TagIterator, TagWriter, WriteOptions};
use std::io::{Read, Write};

const SEG: u64 = 0x18538067;
const CLU: u64 = 0x1F43B675;
const BLOCK: u64 = 0xa1;
const TT: u64 = 0x83;
const EBML: u64 = 0x1a45dfa3;
const BUDGET: u64 = u64::MAX / 4;

/// Generates: head bytes, then `n` repetitions of (unit header + `p` payload bytes of value `fill(i)`), then tail bytes.
struct GenRead {
    head: Vec<u8>,
    unit_hdr: Vec<u8>,
    p: usize,
    n: u64,
    tail: Vec<u8>,
    pos: u64,
}

impl GenRead {
    fn total(&self) -> u64 {
        self.head.len() as u64 + self.n * (self.unit_hdr.len() + self.p) as u64 + self.tail.len() as u64
    }
    fn byte_at(&self, pos: u64) -> u8 {
        let h = self.head.len() as u64;
        if pos < h {
            return self.head[pos as usize];
        }
        let u = (self.unit_hdr.len() + self.p) as u64;
        let body = self.n * u;
        if pos < h + body {
            let r = (pos - h) % u;
            let i = (pos - h) / u;
            if (r as usize) < self.unit_hdr.len() {
                return self.unit_hdr[r as usize];
            }
            return (i as u8).wrapping_mul(31).wrapping_add(7);
        }
        self.tail[(pos - h - body) as usize]
    }
}

impl Read for GenRead {
    fn read(&mut self, buf: &mut [u8]) -> std::io::Result<usize> {
        let total = self.total();
        if self.pos >= total || buf.is_empty() {
            return Ok(0);
        }
        let h = self.head.len() as u64;
        let u = (self.unit_hdr.len() + self.p) as u64;
        let body_end = h + self.n * u;
        let mut n = 0usize;
        while n < buf.len() && self.pos < total {
            // fast path: inside a payload, fill a run
            if self.pos >= h && self.pos < body_end {
                let r = (self.pos - h) % u;
                if r as usize >= self.unit_hdr.len() {
                    let i = (self.pos - h) / u;
                    let left = (u - r) as usize;
                    let take = left.min(buf.len() - n);
                    let v = (i as u8).wrapping_mul(31).wrapping_add(7);
                    buf[n..n + take].fill(v);
                    n += take;
                    self.pos += take as u64;
                    continue;
                }
            }
            buf[n] = self.byte_at(self.pos);
            n += 1;
            self.pos += 1;
        }
        Ok(n)
    }
}

fn vint8(v: u64) -> Vec<u8> {
    let mut b = (v | (1u64 << 56)).to_be_bytes().to_vec();
    b[0] = 0x01;
    b
}

fn id_bytes(id: u64) -> Vec<u8> {
    crate::refcodec::id_bytes(id)
}

pub fn run_huge_read(c: &mut Case) {
    crate::gen::z_test().install();
    let p: usize = 1 << 20;
    let n: u64 = (1u64 << 32) / p as u64 + 3 + c.rng.below(5);
    let mut unit_hdr = id_bytes(BLOCK);
    unit_hdr.extend(crate::refcodec::enc_vint(p as u64, 4));
    // Segment > Cluster(known, 8-byte size) > n x Block ; then TrackType under Segment ; then an empty Ebml at root
    let clu_content = n * (unit_hdr.len() + p) as u64;
    let mut clu_hdr = id_bytes(CLU);
    clu_hdr.extend(vint8(clu_content));
    let tt = [0x83u8, 0x81, 0x05];
    let seg_content = clu_hdr.len() as u64 + clu_content + tt.len() as u64;
    let mut head = id_bytes(SEG);
    head.extend(vint8(seg_content));
    let seg_hdr_len = head.len() as u64;
    head.extend(&clu_hdr);
    let mut tail = tt.to_vec();
    tail.extend(id_bytes(EBML));
    tail.push(0x80);
    let src = GenRead { head: head.clone(), unit_hdr: unit_hdr.clone(), p, n, tail, pos: 0 };
    let total = src.total();
    let first_block = head.len() as u64;
    let unit = (unit_hdr.len() + p) as u64;
    let wit = |msg: &str| J::obj().set("scenario", J::s("generated stream longer than 2^32 bytes")).set("stream_bytes", J::s(total.to_string())).set("blocks", J::u(n as usize)).set("block_payload_bytes", J::u(p)).set("problem", J::s(msg));
    c.eval();
    let r = guard(BUDGET, || {
        let mut it: TagIterator<GenRead, DynTag> = TagIterator::with_capacity(src, &[], 1 << 16);
        it.set_max_allowable_tag_size(None);
        let mut k: u64 = 0; // item index
        let mut blocks: u64 = 0;
        loop {
            let item = match it.next() {
                None => break,
                Some(Ok(t)) => t,
                Some(Err(e)) => return Err(format!("item {}: {:?}", k, e).chars().take(300).collect::<String>()),
            };
            let off = it.last_emitted_tag_offset() as u64;
            let want: (u64, u64, &str) = if k == 0 {
                (SEG, 0, "start")
            } else if k == 1 {
                (CLU, seg_hdr_len, "start")
            } else if k < 2 + n {
                (BLOCK, first_block + (k - 2) * unit, "block")
            } else if k == 2 + n {
                (CLU, seg_hdr_len, "end")
            } else if k == 3 + n {
                (TT, first_block + n * unit, "5")
            } else if k == 4 + n {
                (SEG, 0, "end")
            } else if k == 5 + n {
                (EBML, first_block + n * unit + 3, "start")
            } else if k == 6 + n {
                (EBML, first_block + n * unit + 3, "end")
            } else {
                return Err(format!("unexpected extra item {} (id {:x})", k, item.id));
            };
            if item.id != want.0 || off != want.1 {
                return Err(format!("item {} is id {:x} at offset {} — expected id {:x} at offset {}", k, item.id, off, want.0, want.1));
            }
            let ok = match (&item.val, want.2) {
                (DVal::M(Master::Start), "start") | (DVal::M(Master::End), "end") | (DVal::U(5), "5") => true,
                (DVal::B(b), "block") => {
                    blocks += 1;
                    let v = ((k - 2) as u8).wrapping_mul(31).wrapping_add(7);
                    b.len() == p && b[0] == v && b[p - 1] == v && b[p / 2] == v
                }
                _ => false,
            };
            if !ok {
                return Err(format!("item {} (id {:x}) has the wrong shape or payload", k, item.id));
            }
            k += 1;
        }
        if k != 7 + n {
            return Err(format!("stream ended after {} items, expected {}", k, 7 + n));
        }
        Ok(blocks)
    });
    match r {
        Err(cg) => c.violation(format!("C03/huge-stream/{}", cg.sig()), cg.text(), wit("panic or budget")),
        Ok(Err(e)) => c.violation("C03/huge-stream/items-or-offsets-differ", e.clone(), wit(&e)),
        Ok(Ok(b)) => {
            c.count("huge_streams_read");
            c.add("items_checked", b + 7);
            c.add("huge_stream_bytes_over_4gib", total - (1u64 << 32));
        }
    }
    c.nontrivial(crate::prng::hash_str("huge-read"));
}

/// Validating sink: a streaming reference parser that holds nothing. It accepts any size-field widths the writer
/// chooses (no property pins the default width): Segment with an unknown size of any width, then clusters of known size,
/// each holding exactly one Block whose declared size is `p` and whose payload is the fill byte of that cluster, then
/// TrackType = 5. Every declared size has to describe exactly what follows.
enum SinkState {
    Header,                                  // collecting the id + size field of the next element
    Payload { left: u64, fill: u8 },         // inside a Block payload
    Value { left: usize, acc: u64 },         // inside the TrackType payload
    Done,
}

struct CheckSink {
    st: SinkState,
    hdr: Vec<u8>,
    seg_seen: bool,
    clu_left: Option<u64>, // bytes left in the cluster that is open
    clusters: u64,
    p: u64,
    pos: u64,
    problem: Option<String>,
    flushes: u64,
}

impl CheckSink {
    fn new(p: u64) -> Self {
        CheckSink { st: SinkState::Header, hdr: Vec::new(), seg_seen: false, clu_left: None, clusters: 0, p, pos: 0, problem: None, flushes: 0 }
    }
    fn header_complete(&mut self, id: u64, size: crate::refcodec::RSize, hdr_len: u64) {
        use crate::refcodec::RSize;
        let at = self.pos;
        if let Some(left) = self.clu_left.as_mut() {
            // inside a cluster: exactly one Block
            if hdr_len > *left {
                self.problem = Some(format!("header at {} overruns its cluster", at));
                return;
            }
            *left -= hdr_len;
            match (id, size) {
                (BLOCK, RSize::Known(v)) if v == self.p && v == *left => {
                    *left = 0;
                    self.st = SinkState::Payload { left: v, fill: (self.clusters as u8).wrapping_mul(31).wrapping_add(7) };
                }
                (i, sz) => self.problem = Some(format!("inside cluster {} at {}: element {:x} with size {:?}, expected a Block of {} bytes filling the cluster ({} bytes left)", self.clusters, at, i, sz, self.p, left)),
            }
            return;
        }
        match (id, size) {
            (SEG, RSize::Unknown) if !self.seg_seen => self.seg_seen = true,
            (CLU, RSize::Known(v)) if self.seg_seen => self.clu_left = Some(v),
            (TT, RSize::Known(v)) if self.seg_seen && (1..=8).contains(&v) => self.st = SinkState::Value { left: v as usize, acc: 0 },
            (i, sz) => self.problem = Some(format!("at {}: element {:x} with size {:?} is not what the calls wrote", at, i, sz)),
        }
    }
}

impl Write for CheckSink {
    fn write(&mut self, buf: &[u8]) -> std::io::Result<usize> {
        use crate::refcodec::{dec_id, dec_size, Dec};
        let mut i = 0usize;
        while i < buf.len() && self.problem.is_none() {
            match &mut self.st {
                SinkState::Header => {
                    self.hdr.push(buf[i]);
                    i += 1;
                    self.pos += 1;
                    let parsed = match dec_id(&self.hdr) {
                        Dec::Ok(id, il) => match dec_size(&self.hdr[il..]) {
                            Dec::Ok(sz, sl) => Some(Ok((id, sz, (il + sl) as u64))),
                            Dec::NeedMore => None,
                            Dec::Invalid => Some(Err("invalid size field")),
                        },
                        Dec::NeedMore => None,
                        Dec::Invalid => Some(Err("invalid id")),
                    };
                    match parsed {
                        None => {}
                        Some(Err(e)) => self.problem = Some(format!("{} in the header that ends at byte {}", e, self.pos)),
                        Some(Ok((id, sz, hl))) => {
                            self.hdr.clear();
                            self.header_complete(id, sz, hl);
                        }
                    }
                }
                SinkState::Payload { left, fill } => {
                    let k = (*left).min((buf.len() - i) as u64) as usize;
                    if let Some(bad) = buf[i..i + k].iter().position(|b| *b != *fill) {
                        self.problem = Some(format!("payload byte {} of cluster {} is {:02x}, expected {:02x}", self.pos + bad as u64, self.clusters, buf[i + bad], *fill));
                        break;
                    }
                    *left -= k as u64;
                    i += k;
                    self.pos += k as u64;
                    if *left == 0 {
                        self.clusters += 1;
                        self.clu_left = None;
                        self.st = SinkState::Header;
                    }
                }
                SinkState::Value { left, acc } => {
                    *acc = (*acc << 8) | buf[i] as u64;
                    *left -= 1;
                    i += 1;
                    self.pos += 1;
                    if *left == 0 {
                        if *acc != 5 {
                            self.problem = Some(format!("TrackType decodes to {} instead of 5", acc));
                        }
                        self.st = SinkState::Done;
                    }
                }
                SinkState::Done => {
                    self.problem = Some(format!("bytes after the end of the document at {}", self.pos));
                }
            }
        }
        self.pos += (buf.len() - i) as u64;
        Ok(buf.len())
    }
    fn flush(&mut self) -> std::io::Result<()> {
        self.flushes += 1;
        Ok(())
    }
}

pub fn run_huge_write(c: &mut Case) {
    crate::gen::z_test().install();
    let p: usize = 1 << 20;
    let n: u64 = (1u64 << 32) / p as u64 + 2 + c.rng.below(4);
    // Segment(unknown size)[ n x Cluster(known)[Block(p)] , TrackType(5) ], judged structurally by the sink
    let total: u64 = n * (p as u64);
    let wit = |msg: &str| J::obj().set("scenario", J::s("writer output longer than 2^32 bytes through an unknown-size master")).set("payload_bytes_written", J::s(total.to_string())).set("clusters", J::u(n as usize)).set("problem", J::s(msg));
    c.eval();
    let r = guard(BUDGET, || {
        let mut w = TagWriter::new(CheckSink::new(p as u64));
        w.write_advanced(&DynTag { id: SEG, val: DVal::M(Master::Start) }, WriteOptions::is_unknown_sized_element()).map_err(|e| format!("{:?}", e))?;
        for i in 0..n {
            let v = (i as u8).wrapping_mul(31).wrapping_add(7);
            let cl = DynTag { id: CLU, val: DVal::M(Master::Full(vec![DynTag { id: BLOCK, val: DVal::B(vec![v; p]) }])) };
            w.write(&cl).map_err(|e| format!("cluster {}: {:?}", i, e).chars().take(200).collect::<String>())?;
            if w.get_ref().problem.is_some() {
                break;
            }
        }
        w.write(&DynTag { id: TT, val: DVal::U(5) }).map_err(|e| format!("{:?}", e))?;
        let sink = w.into_inner().map_err(|e| format!("into_inner: {:?}", e))?;
        let complete = matches!(sink.st, SinkState::Done);
        Ok::<(u64, u64, bool, Option<String>), String>((sink.pos, sink.clusters, complete, sink.problem))
    });
    match r {
        Err(cg) => c.violation(format!("C01/huge-stream/writer-{}", cg.sig()), cg.text(), wit("panic or budget")),
        // the property is conditional on acceptance: a writer that refuses a conformant call makes the case vacuous
        Ok(Err(e)) => {
            c.count("vacuous_huge_stream_writer_rejected");
            let _ = e;
        }
        Ok(Ok((pos, clusters, complete, problem))) => {
            if let Some(m) = problem {
                c.violation("C01/huge-stream/output-does-not-parse-to-the-tags-written", m.clone(), wit(&m));
            } else if !complete || clusters != n || pos <= (1u64 << 32) {
                let m = format!("{} bytes were written holding {} complete clusters (document complete: {}); {} clusters and TrackType were written", pos, clusters, complete, n);
                c.violation("C01/huge-stream/output-incomplete", m.clone(), wit(&m));
            } else {
                c.count("huge_streams_written");
            }
        }
    }
    c.nontrivial(crate::prng::hash_str("huge-write"));
}
