//! One monitor per property.

use crate::runner::PropDef;

pub mod c15;
pub mod c16;

pub fn all() -> Vec<&'static PropDef> {
    vec![&c15::DEF, &c16::DEF]
}
