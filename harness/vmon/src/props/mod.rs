//! One monitor per property.

use crate::runner::PropDef;

pub mod common;
pub mod inputs;
pub mod giant;
pub mod huge;
pub mod c01;
pub mod c02;
pub mod c03;
pub mod c04;
pub mod c05;
pub mod c06;
pub mod c07;
pub mod c08;
pub mod c09;
pub mod c10;
pub mod c11;
pub mod c12;
pub mod c13;
pub mod c14;
pub mod c15;
pub mod c17;
#[cfg(feature = "macro-lib")]
pub mod c18;
pub mod c19;
pub mod c20;
pub mod c16;

pub fn all() -> Vec<&'static PropDef> {
    #[allow(unused_mut)]
    let mut v = vec![&c01::DEF, &c02::DEF, &c03::DEF, &c04::DEF, &c05::DEF, &c06::DEF, &c07::DEF, &c08::DEF, &c09::DEF, &c10::DEF, &c11::DEF, &c12::DEF, &c13::DEF, &c14::DEF, &c15::DEF, &c16::DEF, &c17::DEF, &c19::DEF, &c20::DEF];
    #[cfg(feature = "macro-lib")]
    v.insert(17, &c18::DEF);
    v
}
