//! C05 — the iterator is total: no panic, no hang, fused, I/O errors surface.

use super::inputs::*;
use crate::io::{ScriptedRead, POISONS};
use crate::json::J;
use crate::obs::Caught;
use crate::prng::{hash_str, mix, Rng};
use crate::rd::{make_iter, next_ev, recover_ev, step_budget, ErrRec, Ev, MaxSz, RCfg};
use crate::runner::{Case, PropDef, Tier};
use std::io::ErrorKind;

pub static DEF: PropDef = PropDef {
    id: "C05",
    level: "exploration",
    rule: "each case: one input (valid writer/reference output, truncated, 1-3 mutations, adversarial header catalogue entry — zero-length numerics, 9-byte numerics, 8-byte ids/sizes, all-ones sizes of every width on every element type, first byte 0x00 — random bytes, mid-document suffix) x a random configuration (8 tolerance subsets, buffered-master subset, capacity in {default,0,1,2,7,8,15,16,17,64,len-1,len,len+1}, size limit in {5,100,4096,1 MiB}, EOF closing on/off) x a scripted source (random short reads, poisoned buffer tails, in a quarter of the cases 1-3 one-shot empty reads — Ok(0), then data again on the very next read — at arbitrary byte positions) x a random interleaving of next()/try_recover(). Every API call runs under catch_unwind with a logical step budget (hook H1) and a source read budget; item count must stay <= 2*len+2*depth+16; after the first None with the source exhausted 8 further calls must return None; total steps must stay within 256*(len+items+64). Then the same parse is repeated with an I/O error injected at a read index (every index for inputs <= 64 bytes in thorough): the first error seen must be ReadError carrying the injected kind and message, and the Ok items before it a prefix of the fault-free run; the error is transient (only that one read fails), and up to 24 further next() calls with one try_recover() in between must not panic or exceed their budgets. Four fixed probes per run parse, in a child process on a thread with a 256 KiB stack, very long runs (20 000 quick / 100 000 thorough) of sibling buffered masters (known and unknown size) and deep nestings (4 000 / 20 000 levels) of a self-nesting master (unbuffered, and inside a buffered root): input-controlled recursion shows up as a crash of the child. Thorough tier only: four runs of a small single-threaded workload (writer, iterator with short reads and try_recover, tools, async next() loop) under `cargo +nightly miri run` (tree borrows) as a supplementary undefined-behaviour check. distinct = (input-kind class, first-error kind, config class, API-sequence class); non-trivial iff the input is not a plain valid document or the config is non-default.",
    assumptions: &["the default 4 GB size limit is only used with valid documents (a legitimate multi-GB allocation per worker would exhaust the machine); C17 covers the default limit with curated sizes", "`no hang` is decided as bounded logical progress (hook H1 ticks + source read budget); a pure-CPU loop without a tick would only trip the wall-clock watchdog (inconclusive)"],
    cases_quick: 400_000,
    cases_thorough: 5_000_000,
    floors: &[("api_calls", 200_000), ("distinct_nontrivial", 300), ("fault_runs", 5_000), ("catalogue_headers_reached", 500), ("try_recover_calls", 5_000), ("fused_checks", 5_000), ("long_run_probes", 4)],
    exhaustive_note: Some("I/O-error injection at every read index for inputs of <= 64 bytes (thorough)"),
    run,
};

pub fn random_cfg(rng: &mut Rng, inp: &Input) -> RCfg {
    let len = inp.bytes.len();
    let masters = inp.spec.masters();
    let buffered = match rng.below(4) {
        0 | 1 => vec![],
        2 => vec![*rng.pick(&masters)],
        _ => masters.iter().filter(|_| rng.chance(1, 2)).copied().collect(),
    };
    let capacity = match rng.below(16) {
        0..=5 => None,
        6 => Some(0),
        7 => Some(*rng.pick(&[1usize, 2, 7, 8])),
        8 => Some(*rng.pick(&[15usize, 16, 17])),
        9 => Some(64),
        10 => Some(len.saturating_sub(1)),
        11 => Some(len),
        12 => Some(len + 1),
        _ => Some(rng.urange(0, 200)),
    };
    let max_size = if inp.valid && rng.chance(1, 4) { MaxSz::Default } else { MaxSz::Set(Some(*rng.pick(&[5usize, 100, 4096, 4096, 65536, 65536, 1 << 20]))) };
    RCfg { allow: rng.below(8) as u8, buffered, capacity, max_size, eof_end: rng.chance(3, 4) }
}

pub fn random_source(rng: &mut Rng, bytes: &[u8]) -> ScriptedRead {
    let src = ScriptedRead::new(bytes.to_vec()).with_poison(*rng.pick(&POISONS));
    // the iterator compacts its buffer on every refill, so tiny reads on large payloads cost O(n^2) memmove:
    // keep the number of reads per document bounded for large inputs
    let scale = 1 + bytes.len() / 400;
    let src = random_source_scaled(rng, src, scale);
    return src;
}

fn random_source_scaled(rng: &mut Rng, src: ScriptedRead, scale: usize) -> ScriptedRead {
    match rng.below(6) {
        0 => src,
        1 => src.with_chunks(vec![], scale),
        2 => {
            let t = rng.urange(1, 9) * scale;
            src.with_chunks(vec![], t)
        }
        3 => {
            let n = rng.urange(1, 30);
            let ch = (0..n).map(|_| rng.urange(1, 20)).collect();
            src.with_chunks(ch, usize::MAX)
        }
        4 => {
            let first = rng.urange(1, 17);
            src.with_chunks(vec![first], usize::MAX)
        }
        _ => {
            let n = rng.urange(1, 60);
            let ch = (0..n).map(|_| rng.urange(1, 5)).collect();
            let t = rng.urange(1, 64) * scale;
            src.with_chunks(ch, t)
        }
    }
}

struct RunLog {
    oks: Vec<(crate::spec::Item, usize)>,
    first_err: Option<ErrRec>,
    reads: usize,
}

fn cfg_class(cfg: &RCfg) -> String {
    format!("a{}b{}c{}m{:?}e{}", cfg.allow, cfg.buffered.len().min(2), match cfg.capacity { None => "d".to_string(), Some(c) if c < 16 => "<16".into(), Some(_) => ">=16".into() }, cfg.max_size, cfg.eof_end as u8)
}

fn sig_ctx(inp: &Input, cfg: &RCfg) -> String {
    let k = inp.kind.split('/').next().unwrap_or("");
    format!("{}{}", k, match cfg.capacity { Some(c) if c < 16 => "/capacity<16", _ => "" })
}

fn run_long_probe(c: &mut Case, which: u64) {
    // Run in a child process on a thread with a deliberately small stack (256 KiB): recursion whose depth is controlled
    // by the input then shows up as a crash of the child instead of needing hundreds of thousands of elements.
    let n = if which < 2 { c.tier.pick(20_000usize, 100_000) } else { c.tier.pick(4_000usize, 20_000) };
    let (name, bytes, _buffered, expect_items) = long_run_probe(which, n);
    let exe = std::env::current_exe().expect("current exe");
    let out = std::process::Command::new(exe).args(["probe-deep", &which.to_string(), &n.to_string(), "256"]).output();
    c.eval();
    c.count("long_run_probes");
    let wit = |msg: &str| J::obj().set("probe", J::s(name.clone())).set("byte_len", J::u(bytes.len())).set("bytes_head", J::hex(&bytes[..bytes.len().min(48)])).set("stack_of_parsing_thread", J::s("256 KiB")).set("reproduce", J::s(format!("vmon probe-deep {} {} 256", which, n))).set("problem", J::s(msg));
    match out {
        Err(e) => panic!("cannot spawn probe child: {}", e),
        Ok(o) => {
            let text = String::from_utf8_lossy(&o.stdout).to_string();
            let err = String::from_utf8_lossy(&o.stderr).to_string();
            if o.status.code() != Some(0) {
                let how = if err.contains("overflowed its stack") || err.contains("stack overflow") { "stack-overflow" } else { "crash" };
                c.violation(format!("C05/long-run/{}/{}", ["buffered-siblings-known", "buffered-siblings-unknown", "deep-nesting-unbuffered", "deep-nesting-in-buffered-master"][which as usize], how), format!("{}: the parsing process died ({:?}): {}", name, o.status, err.lines().last().unwrap_or("")), wit("process died while parsing"));
            } else if !text.contains(&format!("items={}", expect_items)) {
                c.violation(format!("C05/long-run/{}/wrong-item-count", which), format!("{}: expected {} items, child said: {}", name, expect_items, text.trim()), wit("wrong number of items"));
            }
        }
    }
    c.nontrivial(mix(hash_str("long-run"), which));
}

/// Supplementary sanitizer stage (thorough): the smoke workload under Miri (tree borrows). The repository has no
/// `unsafe`, so a UB report can only implicate it if a frame of /repo/src performs the access; anything else (std,
/// futures, the harness) is recorded but not alarmed. Unavailable toolchain => recorded, not a verdict.
fn run_miri_stage(c: &mut Case, seed: u64) {
    let hd = format!("{}/harness", std::env::var("VERIF_DIR").unwrap_or_else(|_| "/verif".into()));
    let out = std::process::Command::new("cargo")
        .args(["+nightly", "miri", "run", "--offline", "-q", "-p", "vmon", "--", "miri-smoke", "12", &seed.to_string()])
        .current_dir(&hd)
        .env("CARGO_TARGET_DIR", format!("{}/target/miri", hd))
        .env("MIRIFLAGS", "-Zmiri-disable-isolation -Zmiri-tree-borrows")
        .env("CARGO_NET_OFFLINE", "true")
        .output();
    c.eval();
    match out {
        Err(_) => c.count("miri_unavailable"),
        Ok(o) => {
            let text = format!("{}{}", String::from_utf8_lossy(&o.stdout), String::from_utf8_lossy(&o.stderr));
            if let Some(l) = text.lines().find(|l| l.starts_with("miri-smoke ok")) {
                c.count("miri_runs_clean");
                let ops: u64 = l.rsplit('=').next().and_then(|x| x.trim().parse().ok()).unwrap_or(0);
                c.add("miri_api_operations", ops);
            } else if text.contains("Undefined Behavior") {
                let in_repo = text.lines().skip_while(|l| !l.contains("Undefined Behavior")).take(14).any(|l| l.contains("/repo/src/"));
                if in_repo {
                    c.violation("C05/miri-undefined-behaviour", "Miri reports undefined behaviour with a frame of /repo/src among the innermost frames", J::obj().set("miri_output_tail", J::s(text.lines().rev().take(40).collect::<Vec<_>>().into_iter().rev().collect::<Vec<_>>().join("\n"))));
                } else {
                    c.count("miri_report_outside_repo");
                }
            } else if text.contains("panicked") {
                c.violation("C05/miri-panic", "the smoke workload panicked under Miri", J::obj().set("miri_output_tail", J::s(text.lines().rev().take(30).collect::<Vec<_>>().into_iter().rev().collect::<Vec<_>>().join("\n"))));
            } else {
                c.count("miri_unavailable");
            }
        }
    }
}

fn run(c: &mut Case) {
    if c.idx < 4 {
        run_long_probe(c, c.idx);
        return;
    }
    if c.tier == Tier::Thorough && c.idx < 8 {
        run_miri_stage(c, c.idx);
        return;
    }
    let inp = gen_input(&mut c.rng, c.tier, &Mix::ALL);
    inp.spec.install();
    let cfg = random_cfg(&mut c.rng, &inp);
    let len = inp.bytes.len();
    let depth = inp.spec.elems.iter().map(|e| e.path.len()).max().unwrap_or(0) + 1;
    let mut src = random_source(&mut c.rng, &inp.bytes);
    // a quarter of the sources are resumable ones seen mid-call: at 1-3 arbitrary positions (inside ids, size fields,
    // payloads) one read answers Ok(0) and the very next read delivers data again. Not under the default limit (a
    // misaligned continuation may legitimately ask for gigabytes there).
    if cfg.max_size != MaxSz::Default && len > 0 && c.rng.chance(1, 4) {
        let n = c.rng.urange(1, 3);
        let blips: Vec<usize> = (0..n).map(|_| c.rng.usize_below(len)).collect();
        src = src.with_blips(blips);
        c.count("sources_with_one_shot_empty_reads");
    }
    let p_recover_after_err = *c.rng.pick(&[0u64, 50, 100]);
    // with the default 4 GB limit a misaligned parse (after a gratuitous try_recover) may legitimately allocate GBs
    let p_recover_random = if cfg.max_size == MaxSz::Default { 0 } else { *c.rng.pick(&[0u64, 0, 5]) };
    let wit = |extra: J| inp.to_json().set("config", cfg.to_json()).set("detail", extra);

    if c.verbose {
        eprintln!("{}", wit(J::Null).to_pretty());
    }
    // ------------------------------------------------ fault-free run with random API interleaving
    let mut it = make_iter(src.clone(), &cfg);
    let mut oks: Vec<(crate::spec::Item, usize)> = Vec::new();
    let mut first_err: Option<ErrRec> = None;
    let mut api_log: Vec<String> = Vec::new();
    let max_calls = 6 * len + 64;
    let mut total_steps = 0u64;
    let mut after_err = false;
    let mut recovers = 0;
    let mut ended = false;
    let mut api_rng = c.rng.fork();
    let mut calls_since_first_err = 0usize;
    let mut premature_none = 0usize;
    for _ in 0..max_calls {
        if first_err.is_some() {
            calls_since_first_err += 1;
            if calls_since_first_err > 48 {
                break;
            }
        }
        it.get_mut().begin_api_call();
        let do_recover = (after_err && api_rng.below(100) < p_recover_after_err) || api_rng.below(100) < p_recover_random;
        if do_recover {
            recovers += 1;
            c.count("try_recover_calls");
            let r = recover_ev(&mut it, step_budget(len, oks.len()));
            total_steps += crate::obs::steps();
            c.count("api_calls");
            match r {
                Err(cg) => {
                    c.violation(format!("C05/try_recover/{}/{}", cg.sig(), sig_ctx(&inp, &cfg)), format!("try_recover() {}", cg.text()), wit(J::obj().set("api_log_tail", J::Arr(api_log.iter().rev().take(12).rev().map(|s| J::s(s.clone())).collect()))));
                    return;
                }
                Ok(Ok(())) => {
                    api_log.push("try_recover()=Ok".into());
                    after_err = false;
                    calls_since_first_err = calls_since_first_err.saturating_sub(4);
                }
                Ok(Err(e)) => {
                    api_log.push(format!("try_recover()=Err({})", e.kind()));
                    if !matches!(e, ErrRec::Eof { .. } | ErrRec::Read { .. }) {
                        c.violation(format!("C05/try_recover-error-kind/{}", e.kind()), format!("try_recover() failed with {} (only end of input or a source error are allowed)", e.short()), wit(J::Null));
                        return;
                    }
                }
            }
            continue;
        }
        let ev = next_ev(&mut it, step_budget(len, oks.len()));
        total_steps += crate::obs::steps();
        c.count("api_calls");
        c.eval();
        match ev {
            Ev::Caught(cg) => {
                let what = match &cg {
                    Caught::Panic(_) => "next()-panicked",
                    Caught::Hang(_) => "next()-exceeded-budget",
                };
                c.violation(
                    format!("C05/{}/{}/{}", what, cg.sig(), sig_ctx(&inp, &cfg)),
                    format!("next() {}", cg.text()),
                    wit(J::obj().set("items_before", J::u(oks.len())).set("api_log_tail", J::Arr(api_log.iter().rev().take(12).rev().map(|s| J::s(s.clone())).collect())).set("read_log_tail", J::Arr(it.get_ref().log.iter().rev().take(8).rev().map(|(a, b)| J::s(format!("buf={} ret={}", a, b))).collect()))),
                );
                return;
            }
            Ev::Item(i, o) => {
                if api_log.len() < 4096 {
                    api_log.push(format!("next()={}", i.short()));
                }
                oks.push((i, o));
                after_err = false;
                if oks.len() > 2 * len + 2 * depth + 16 {
                    c.violation(format!("C05/too-many-items/{}", sig_ctx(&inp, &cfg)), format!("{} Ok items from {} input bytes (bound 2*len+2*depth+16 = {})", oks.len(), len, 2 * len + 2 * depth + 16), wit(J::Null));
                    return;
                }
            }
            Ev::Err(e) => {
                api_log.push(format!("next()=Err({})", e.kind()));
                if first_err.is_none() {
                    first_err = Some(e);
                }
                after_err = true;
            }
            Ev::None => {
                api_log.push("next()=None".into());
                if it.get_ref().exhausted() {
                    // fused: further calls keep returning None
                    c.count("fused_checks");
                    for k in 0..8 {
                        it.get_mut().begin_api_call();
                        let ev2 = next_ev(&mut it, step_budget(len, oks.len()));
                        c.count("api_calls");
                        if ev2 != Ev::None {
                            c.violation(format!("C05/not-fused/{}/{}", match &ev2 { Ev::Item(..) => "item", Ev::Err(_) => "error", _ => "caught" }, sig_ctx(&inp, &cfg)), format!("after None with the source exhausted, call #{} returned {}", k + 1, ev2.short()), wit(J::obj().set("api_log_tail", J::Arr(api_log.iter().rev().take(12).rev().map(|s| J::s(s.clone())).collect()))));
                            return;
                        }
                    }
                    ended = true;
                    break;
                }
                premature_none += 1;
                if premature_none > 8 {
                    c.count("runs_stuck_on_none_before_source_exhausted");
                    break;
                }
            }
        }
    }
    let reads = it.get_ref().call;
    let pos_reached = it.get_ref().pos;
    // work per parse is a recorded measure, not a verdict: C05 bounds the number of items, not the work
    if total_steps > 256 * (len as u64 + oks.len() as u64 + 64) {
        c.count("parses_with_more_than_256_steps_per_byte");
    }
    c.max("steps_per_input_byte_x100", total_steps * 100 / (len as u64 + 16));
    c.add("items_ok", oks.len() as u64);
    if ended {
        c.count("runs_reaching_end");
    }
    if inp.kind.starts_with("adversarial") && pos_reached == len {
        c.count("catalogue_headers_reached");
    }
    if let Some(e) = &first_err {
        c.count(&format!("first_error_{}", e.kind()));
    }
    let base = RunLog { oks, first_err: first_err.clone(), reads };

    // ------------------------------------------------ I/O fault injection (plain next() loop)
    if base.reads > 0 {
        let ks: Vec<usize> = if c.tier == Tier::Thorough && len <= 64 { (0..base.reads.min(80)).collect() } else { vec![c.rng.usize_below(base.reads), 0] };
        // reference run without interleaved try_recover, same source & cfg
        let plain = plain_run(src.clone(), &cfg, len, None);
        for k in ks {
            let kind = *c.rng.pick(&[ErrorKind::Other, ErrorKind::BrokenPipe, ErrorKind::TimedOut, ErrorKind::PermissionDenied, ErrorKind::UnexpectedEof, ErrorKind::Interrupted, ErrorKind::WouldBlock]);
            let msg = format!("verif-io-#{}", k);
            let f = plain_run(src.clone(), &cfg, len, Some((k, kind, msg.clone())));
            c.count("fault_runs");
            c.eval();
            match (&f.caught, &f.first_err) {
                (Some(cg), _) => {
                    c.violation(format!("C05/io-fault/{}/{}", cg.sig(), sig_ctx(&inp, &cfg)), format!("with an I/O error at read #{}: {}", k, cg.text()), wit(J::obj().set("fault_at_read", J::u(k))));
                    continue;
                }
                (None, Some(ErrRec::Read { kind: gk, msg: gm })) if *gk == format!("{:?}", kind) && *gm == msg => {}
                (None, _) if matches!(&f.later_read, Some(ErrRec::Read { kind: gk, msg: gm }) if *gk == format!("{:?}", kind) && *gm == msg) => {
                    c.count("fault_surfaced_on_a_later_call");
                    continue;
                }
                (None, other) => {
                    // the run met an error of its own (or its end) before the failing read was ever made: nothing to judge
                    if f.reads_at_first <= k {
                        c.count("fault_not_reached");
                        continue;
                    }
                    c.violation(
                        format!("C05/io-fault-not-surfaced/{}/{}", other.as_ref().map(|e| e.kind()).unwrap_or("none"), format!("{:?}", kind)),
                        format!("source returned {:?}(\"{}\") at read #{} but the first error observed was {}", kind, msg, k, other.as_ref().map(|e| e.short()).unwrap_or("none".into())),
                        wit(J::obj().set("fault_at_read", J::u(k))),
                    );
                    continue;
                }
            }
            // prefix property
            if f.oks.len() > plain.oks.len() || f.oks[..] != plain.oks[..f.oks.len()] {
                c.violation(format!("C05/io-fault-prefix/{}", sig_ctx(&inp, &cfg)), format!("items before the injected error at read #{} are not a prefix of the fault-free parse", k), wit(J::obj().set("fault_at_read", J::u(k))));
            }
        }
    }
    let nontrivial = !inp.kind.starts_with("valid") || cfg.allow != 0 || !cfg.buffered.is_empty() || cfg.capacity.is_some();
    if nontrivial {
        let api_class = format!("r{}{}", (recovers > 0) as u8, p_recover_after_err);
        c.nontrivial(mix(hash_str(&format!("{}|{}|{}", inp.kind.split('/').take(2).collect::<Vec<_>>().join("/"), base.first_err.as_ref().map(|e| e.kind()).unwrap_or("clean"), cfg_class(&cfg))), hash_str(&api_class)));
    }
    if c.idx % 2003 == 7 {
        c.set_sample(wit(J::obj().set("api_log_head", J::Arr(api_log.iter().take(14).map(|s| J::s(s.clone())).collect())).set("source_reads", J::u(base.reads)).set("steps", J::u(total_steps))));
    }
}

struct Plain {
    oks: Vec<(crate::spec::Item, usize)>,
    first_err: Option<ErrRec>,
    caught: Option<Caught>,
    reads: usize,
    /// a ReadError seen on a later call when the first error was something else (an iterator may report a failed
    /// look-ahead read when it next needs the bytes)
    later_read: Option<ErrRec>,
    /// source reads made when the run's first error (or its end) was reached — before any continuation
    reads_at_first: usize,
}

fn plain_run(mut src: ScriptedRead, cfg: &RCfg, len: usize, fault: Option<(usize, ErrorKind, String)>) -> Plain {
    let fault_given = fault.is_some();
    if let Some((k, kind, msg)) = fault {
        src = src.with_fault(k, kind, msg);
    }
    let mut it = make_iter(src, cfg);
    let mut oks = Vec::new();
    let mut first_err = None;
    let mut caught = None;
    for _ in 0..(4 * len + 64) {
        it.get_mut().begin_api_call();
        match next_ev(&mut it, step_budget(len, oks.len())) {
            Ev::Item(i, o) => oks.push((i, o)),
            Ev::Err(e) => {
                first_err = Some(e);
                break;
            }
            Ev::None => break,
            Ev::Caught(cg) => {
                caught = Some(cg);
                break;
            }
        }
    }
    // the injected error is transient (one read fails, the next succeeds): a caller that keeps going must not be
    // punished with a panic or a hang — a few more next() calls and a try_recover() in between
    // (not under the 4 GB default limit: after a failed payload read the unchanged iterator resumes behind the header, and
    // a parse that reads payload bytes as headers may then legitimately ask for gigabytes)
    if fault_given && caught.is_none() && cfg.max_size != MaxSz::Default && matches!(first_err, Some(ErrRec::Read { .. })) {
        let mut more = 0usize;
        for round in 0..24 {
            it.get_mut().begin_api_call();
            if round == 3 {
                if let Err(cg) = recover_ev(&mut it, step_budget(len, oks.len() + more)) {
                    caught = Some(cg);
                    break;
                }
                continue;
            }
            match next_ev(&mut it, step_budget(len, oks.len() + more)) {
                Ev::Item(..) => more += 1,
                Ev::Err(_) => {}
                Ev::None => break,
                Ev::Caught(cg) => {
                    caught = Some(cg);
                    break;
                }
            }
        }
    }
    // the injected error need not be the first thing reported: an iterator may park a failed look-ahead read and report
    // it when it next needs those bytes; a few more calls give it the chance (not under the default limit, see above)
    let mut later_read = None;
    let reads_at_first = it.get_ref().call;
    if fault_given && caught.is_none() && cfg.max_size != MaxSz::Default && !matches!(first_err, Some(ErrRec::Read { .. })) && it.get_ref().call > 0 {
        // ... until the run ends, or the reader is stuck on an error without asking its source for anything any more
        // (a header error is reported again and again: twelve such answers in a row and nothing new will come)
        let mut stuck = 0;
        for _ in 0..(4 * len + 64) {
            it.get_mut().begin_api_call();
            let reads_before = it.get_ref().call;
            match next_ev(&mut it, step_budget(len, oks.len() + 32)) {
                Ev::Err(e @ ErrRec::Read { .. }) => {
                    later_read = Some(e);
                    break;
                }
                Ev::Err(_) => {
                    if it.get_ref().call == reads_before {
                        stuck += 1;
                        if stuck >= 12 {
                            break;
                        }
                    } else {
                        stuck = 0;
                    }
                }
                Ev::Item(..) => stuck = 0,
                Ev::None => break,
                Ev::Caught(cg) => {
                    caught = Some(cg);
                    break;
                }
            }
        }
    }
    let reads = it.get_ref().call;
    Plain { oks, first_err, caught, reads, later_read, reads_at_first }
}

// ---------------------------------------------------------------- long-run / deep-nesting probes

/// Specification with a self-nesting master: Root, Root/(0-)/Rec (master), Root/(0-)/Rec leaf U.
pub fn recursive_spec() -> crate::spec::Spec {
    use crate::spec::{Elem, Ty, CRC_ID, PP, VOID_ID};
    let e = |name: &str, id, ty, path| Elem { id, ty, path, name: name.to_string() };
    crate::spec::Spec {
        name: "RECURSIVE".into(),
        elems: vec![
            e("Root", 0x1A45DFA3, Ty::Master, vec![]),
            e("Rec", 0xA0, Ty::Master, vec![PP::Id(0x1A45DFA3), PP::Glob(Some(0), None)]),
            e("Val", 0xD7, Ty::U, vec![PP::Id(0x1A45DFA3), PP::Glob(Some(0), None)]),
            e("Sib", 0xAE, Ty::Master, vec![PP::Id(0x1A45DFA3)]),
            e("SibVal", 0xB0, Ty::U, vec![PP::Id(0x1A45DFA3), PP::Id(0xAE)]),
            e("Crc32", CRC_ID, Ty::B, vec![PP::Glob(Some(1), None)]),
            e("Void", VOID_ID, Ty::B, vec![PP::Glob(None, None)]),
        ],
    }
}

/// (name, bytes, buffered ids, expected number of Ok items) — long runs of siblings and deep nesting
pub fn long_run_probe(which: u64, n: usize) -> (String, Vec<u8>, Vec<u64>, usize) {
    use crate::refcodec::{enc_unknown_size, enc_vint, id_bytes};
    let mut b = Vec::new();
    b.extend(id_bytes(0x1A45DFA3));
    b.extend(enc_unknown_size(8));
    match which {
        0 | 1 => {
            // n sibling masters Sib{SibVal}, known (0) or unknown (1) size, Sib buffered
            for _ in 0..n {
                b.extend(id_bytes(0xAE));
                if which == 0 {
                    b.extend(enc_vint(3, 1));
                } else {
                    b.extend(enc_unknown_size(1));
                }
                b.extend([0xB0, 0x81, 0x07]);
            }
            (format!("{} buffered sibling masters ({} size)", n, if which == 0 { "known" } else { "unknown" }), b, vec![0xAE], 2 + n)
        }
        _ => {
            // n nested known-size Rec masters around one leaf: headers computed inside-out
            let mut headers: Vec<Vec<u8>> = Vec::with_capacity(n);
            let mut content = 3usize;
            for _ in 0..n {
                let mut h = id_bytes(0xA0);
                h.extend(enc_vint(content as u64, crate::refcodec::min_size_width(content as u64).unwrap()));
                content += h.len();
                headers.push(h);
            }
            for h in headers.iter().rev() {
                b.extend_from_slice(h);
            }
            b.extend([0xD7, 0x81, 0x07]);
            if which == 2 {
                (format!("{} nested known-size masters, unbuffered", n), b, vec![], 2 + 2 * n + 1)
            } else {
                (format!("{} nested known-size masters inside a buffered Root", n), b, vec![0x1A45DFA3], 1)
            }
        }
    }
}

/// Body of `vmon probe-deep`: parse probe `which` at nesting depth `n`, return the number of Ok items.
pub fn deep_probe_body(which: u64, n: usize) -> usize {
    let spec = recursive_spec();
    spec.install();
    let (_name, bytes, buffered, _expect) = long_run_probe(which, n);
    let cfg = RCfg { allow: 0, buffered, capacity: None, max_size: MaxSz::Set(Some(1 << 24)), eof_end: true };
    let mut it = make_iter(&bytes[..], &cfg);
    let mut n_ok = 0;
    while let Some(Ok(t)) = it.next() {
        n_ok += 1;
        std::mem::forget(t);
    }
    n_ok
}

/// Workload for the Miri stage (no threads, no child processes, no file system): write -> read round trips, hostile
/// parses with try_recover, vint/payload tools, and the async next() loop on a single-threaded executor.
pub fn miri_smoke(n: u64, seed: u64) -> i32 {
    use crate::io::ScriptedWrite;
    use ebml_iterable::tools::{self, SignedVint, Vint};
    let mut ops = 0u64;
    for i in 0..n {
        let mut rng = Rng::new(mix(seed, i));
        let spec = crate::gen::pick_spec(&mut rng, &crate::gen::SpecBounds::FULL);
        spec.install();
        let tb = crate::gen::TreeBounds { max_elems: 10, max_depth: 4, big_payloads: false, globals: true };
        let mut tree = crate::gen::gen_tree(&mut rng, &spec, &tb);
        crate::gen::assign_opts(&mut rng, &spec, &mut tree, 15, 20);
        let calls = crate::wr::calls_from_tree(&tree, &mut |_| false, false);
        let run = crate::wr::run_calls(&calls, ScriptedWrite::new().with_limits(vec![3, 1]));
        ops += calls.len() as u64;
        // strict read back with short reads
        let masters = spec.masters();
        let cfg = RCfg { allow: (i % 8) as u8, buffered: if i % 2 == 0 { vec![] } else { masters.iter().take(2).copied().collect() }, capacity: Some(16 + (i as usize % 40)), max_size: MaxSz::Set(Some(4096)), eof_end: true };
        let src = ScriptedRead::new(run.bytes.clone()).with_chunks(vec![], 1 + (i as usize % 7)).with_poison(crate::io::Poison::Byte(0xFF));
        let (p, _, _) = crate::rd::parse_scripted(src, &cfg);
        ops += p.items.len() as u64 + 1;
        // mutated parse with recovery
        let (mb, _) = crate::mutate::mutate(&mut rng, &spec, &run.bytes, &[], 2);
        let mut it = make_iter(ScriptedRead::new(mb.clone()), &cfg);
        for _ in 0..(mb.len() + 8).min(60) {
            it.get_mut().begin_api_call();
            match it.next() {
                None => break,
                Some(Ok(_)) => {}
                Some(Err(_)) => {
                    let _ = it.try_recover();
                }
            }
            ops += 1;
        }
        // tools
        let v = rng.next_u64() >> (8 + rng.below(50));
        if let Ok(b) = v.as_vint() {
            assert_eq!(tools::read_vint(&b).unwrap(), Some((v, b.len())));
        }
        let sv = (rng.next_u64() as i64) >> (9 + rng.below(50));
        if let Ok(b) = sv.as_signed_vint() {
            assert_eq!(tools::read_signed_vint(&b).unwrap(), Some((sv, b.len())));
        }
        let sl = rng.bytes(rng.clone().urange(0, 10));
        let _ = (tools::arr_to_u64(&sl), tools::arr_to_i64(&sl), tools::arr_to_f64(&sl), tools::is_vint(v));
        ops += 6;
        // async next() loop (the Stream adapter is excluded: Miri reports UB inside futures_util::stream::Unfold there)
        let tags: Vec<crate::spec::DynTag> = vec![];
        let asrc = crate::io::ScriptedAsyncRead::new(ScriptedRead::new(run.bytes.clone()), 3);
        let mut ait: ebml_iterable::nonblocking::TagIteratorAsync<crate::io::ScriptedAsyncRead, crate::spec::DynTag> = ebml_iterable::nonblocking::TagIteratorAsync::new(asrc, &tags);
        futures::executor::block_on(async {
            while let Some(r) = ait.next().await {
                ops += 1;
                if r.is_err() {
                    break;
                }
            }
        });
    }
    println!("miri-smoke ok rounds={} api_operations={}", n, ops);
    0
}
