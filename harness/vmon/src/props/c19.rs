//! C19 — a rejected write leaves no trace in the output.

use super::common::*;
use crate::gen;
use crate::io::ScriptedWrite;
use crate::json::{hex_short, J};
use crate::prng::{hash_str, mix, Rng};
use crate::refcodec::SizeOpt;
use crate::runner::{Case, PropDef, Tier};
use crate::spec::{Elem, Item, Spec, Ty, VOID_ID};
use crate::wr::{calls_from_tree, calls_json, run_calls, WCall, WRes};

pub static DEF: PropDef = PropDef {
    id: "C19",
    level: "fault_enumeration",
    rule: "each case: a valid call history H (random conformant tree, known/unknown/explicit-width masters, random Full collapsing; histories with a failing call are discarded) and one failure kind; the failing call(s) are inserted at EVERY position of H (quick: every position of histories up to 14 calls, else 8 random positions; thorough: every position) and H+ is run on a fresh writer to completion incl. into_inner(). Failure kinds: misplaced leaf / misplaced master Start / Utf8-Binary too long for the requested width / Full master too big for its width / unknown size on a leaf (both APIs) / malformed raw id / End of a master that is not innermost or with nothing open / Full containing an invalid child (misplaced element, stray End — of another master, of a master open further out, or of the Full's own master —, raw child with a malformed id, also behind a nested master given as a bare Start that is never closed) at depth 1-3 after 0-k valid children / two or three failing calls in a row / End of a master whose content does not fit the explicit size width it was started with (the accepted Start and content are part of both histories). Oracle: inserted calls that return Ok are not failing calls (position is vacuous); otherwise every original call must return the same result kind as in H, into_inner() must end the same way, and the destination bytes must be identical. distinct = (failure kind, shadow-stack shape at the insertion point); non-trivial iff the shadow stack was non-empty at the insertion point.",
    assumptions: &["I/O errors are outside the property and not injected here", "a candidate failing call that the writer accepts is not a C19 case (acceptance is C11's subject); such positions are counted as vacuous"],
    cases_quick: 80_000,
    cases_thorough: 500_000,
    floors: &[("insertions_compared", 8000), ("distinct_nontrivial", 60), ("kinds_misplaced-leaf", 200), ("kinds_width-overflow-leaf", 200), ("kinds_wrong-end", 200), ("kinds_full-invalid-child", 200), ("kinds_unknown-on-leaf", 200), ("kinds_bad-raw-id", 200), ("kinds_full-width-overflow", 100), ("kinds_end-size-overflow", 100), ("kinds_flush-cannot-close-outer", 100)],
    exhaustive_note: Some("insertion positions 0..=len(H) of each generated history (all of them in thorough; all of them for histories of <=14 calls in quick)"),
    run,
};

pub const KINDS: [&str; 12] = ["misplaced-leaf", "misplaced-master-start", "width-overflow-leaf", "full-width-overflow", "unknown-on-leaf", "bad-raw-id", "wrong-end", "full-invalid-child", "several-in-a-row", "end-size-overflow", "flush-cannot-close-outer", "full-rejected-then-its-leaf"];

/// chain of open masters (id, known?) after calls[..p]
pub fn shadow_at(calls: &[WCall], p: usize) -> Vec<(u64, bool)> {
    let mut st = Vec::new();
    for c in &calls[..p] {
        match c {
            WCall::Write(Item::Start(id), opt) => st.push((*id, *opt != SizeOpt::Unknown)),
            WCall::DeprecatedUnknown(Item::Start(id)) => st.push((*id, false)),
            WCall::Write(Item::End(_), _) => {
                st.pop();
            }
            _ => {}
        }
    }
    st
}

fn sample_value(rng: &mut Rng, e: &Elem) -> Item {
    gen::gen_value(rng, e.id, e.ty, false)
}

/// (accepted calls to insert first, failing calls, calls that follow in both histories)
pub fn make_failing3(rng: &mut Rng, spec: &Spec, kind: &str, chain: &[(u64, bool)]) -> Option<(Vec<WCall>, Vec<WCall>, Vec<WCall>)> {
    if kind == "flush-cannot-close-outer" {
        // flush() is a writer call too: a master whose 1- or 2-byte size field cannot describe its content is open, a
        // master nested in it (known or unknown size, possibly with a child) is open as well; flush() has to close the
        // inner one first and is then rejected at the outer one ("size not representable in the requested width").
        // Both histories go on with the End of the inner master (and what the original history holds).
        let ids: Vec<u64> = chain.iter().map(|x| x.0).collect();
        let allowed: Vec<&Elem> = spec.allowed_under(&ids);
        let c: Vec<&&Elem> = allowed.iter().filter(|e| e.ty == Ty::Master).collect();
        if c.is_empty() {
            return None;
        }
        let e = **rng.pick(&c);
        let mut ids2 = ids.clone();
        ids2.push(e.id);
        let subs: Vec<&Elem> = spec.allowed_under(&ids2).into_iter().filter(|x| x.ty == Ty::Master).collect();
        if subs.is_empty() {
            return None;
        }
        let sub = *rng.pick(&subs);
        let (w, n) = *rng.pick(&[(1usize, 125usize), (1, 200), (2, 16381)]);
        let mut prefix = vec![WCall::Write(Item::Start(e.id), SizeOpt::Width(w)), WCall::Write(Item::B(VOID_ID, rng.bytes(n)), SizeOpt::Default), WCall::Write(Item::Start(sub.id), if rng.chance(1, 3) { SizeOpt::Unknown } else { SizeOpt::Default })];
        ids2.push(sub.id);
        let leaves: Vec<&Elem> = spec.allowed_under(&ids2).into_iter().filter(|x| x.ty != Ty::Master).collect();
        if !leaves.is_empty() && rng.chance(1, 2) {
            let l: &Elem = *rng.pick(&leaves);
            prefix.push(WCall::Write(sample_value(rng, l), SizeOpt::Default));
        }
        let mut suffix = Vec::new();
        if !leaves.is_empty() && rng.chance(1, 2) {
            let l: &Elem = *rng.pick(&leaves);
            suffix.push(WCall::Write(sample_value(rng, l), SizeOpt::Default));
        }
        suffix.push(WCall::Write(Item::End(sub.id), SizeOpt::Default));
        return Some((prefix, vec![WCall::Flush], suffix));
    }
    if kind == "full-rejected-then-its-leaf" {
        // a Full whose first child is a leaf that is allowed inside it but not at the place where the Full is written,
        // followed by a misplaced child: the Full is rejected. The call that follows in both histories writes that same
        // leaf where it is not allowed — whatever the writer remembered of the rejected Full must not make it acceptable.
        let ids: Vec<u64> = chain.iter().map(|x| x.0).collect();
        let allowed: Vec<&Elem> = spec.allowed_under(&ids);
        let masters: Vec<&&Elem> = allowed.iter().filter(|e| e.ty == Ty::Master).collect();
        if masters.is_empty() {
            return None;
        }
        let e = **rng.pick(&masters);
        let mut ids2 = ids.clone();
        ids2.push(e.id);
        let inner: Vec<&Elem> = spec.allowed_under(&ids2).into_iter().filter(|x| x.ty != Ty::Master && !crate::spec::ref_path_match(&x.path, &ids)).collect();
        let bad: Vec<&Elem> = spec.elems.iter().filter(|x| x.ty != Ty::Master && !crate::spec::ref_path_match(&x.path, &ids2)).collect();
        if inner.is_empty() || bad.is_empty() {
            return None;
        }
        let l: &Elem = *rng.pick(&inner);
        let b: &Elem = *rng.pick(&bad);
        let leaf = sample_value(rng, l);
        let full = Item::Full(e.id, vec![leaf.clone(), sample_value(rng, b)]);
        let opt = if rng.chance(1, 4) { SizeOpt::Unknown } else { SizeOpt::Default };
        return Some((vec![], vec![WCall::Write(full, opt)], vec![WCall::Write(leaf, SizeOpt::Default)]));
    }
    make_failing2(rng, spec, kind, chain).map(|(a, b)| (a, b, vec![]))
}

/// (accepted calls to insert first, failing calls)
pub fn make_failing2(rng: &mut Rng, spec: &Spec, kind: &str, chain: &[(u64, bool)]) -> Option<(Vec<WCall>, Vec<WCall>)> {
    if kind == "end-size-overflow" {
        // a master started with a 1- or 2-byte size field, filled beyond what that width can describe, then End: the End is rejected
        let ids: Vec<u64> = chain.iter().map(|x| x.0).collect();
        let allowed: Vec<&Elem> = spec.allowed_under(&ids);
        let c: Vec<&&Elem> = allowed.iter().filter(|e| e.ty == Ty::Master).collect();
        if c.is_empty() {
            return None;
        }
        let e = **rng.pick(&c);
        let (w, n) = *rng.pick(&[(1usize, 125usize), (1, 200), (2, 16381)]);
        let prefix = vec![WCall::Write(Item::Start(e.id), SizeOpt::Width(w)), WCall::Write(Item::B(VOID_ID, rng.bytes(n)), SizeOpt::Default)];
        return Some((prefix, vec![WCall::Write(Item::End(e.id), SizeOpt::Default)]));
    }
    make_failing(rng, spec, kind, chain).map(|f| (vec![], f))
}

fn make_failing(rng: &mut Rng, spec: &Spec, kind: &str, chain: &[(u64, bool)]) -> Option<Vec<WCall>> {
    let ids: Vec<u64> = chain.iter().map(|x| x.0).collect();
    let allowed: Vec<&Elem> = spec.allowed_under(&ids);
    let not_allowed: Vec<&Elem> = spec.elems.iter().filter(|e| !crate::spec::ref_path_match(&e.path, &ids)).collect();
    match kind {
        "misplaced-leaf" => {
            let c: Vec<&&Elem> = not_allowed.iter().filter(|e| e.ty != Ty::Master).collect();
            if c.is_empty() {
                return None;
            }
            let e = **rng.pick(&c);
            let opt = if rng.chance(1, 3) { SizeOpt::Width(rng.urange(1, 8)) } else { SizeOpt::Default };
            Some(vec![WCall::Write(sample_value(rng, e), opt)])
        }
        "misplaced-master-start" => {
            let c: Vec<&&Elem> = not_allowed.iter().filter(|e| e.ty == Ty::Master).collect();
            if c.is_empty() {
                return None;
            }
            let e = **rng.pick(&c);
            Some(vec![if rng.chance(1, 2) { WCall::Write(Item::Start(e.id), SizeOpt::Default) } else { WCall::Write(Item::Full(e.id, vec![]), SizeOpt::Default) }])
        }
        "width-overflow-leaf" => {
            let c: Vec<&&Elem> = allowed.iter().filter(|e| matches!(e.ty, Ty::S | Ty::B)).collect();
            if c.is_empty() {
                return None;
            }
            let e = **rng.pick(&c);
            let (w, len) = *rng.pick(&[(1usize, 127usize), (1, 128), (1, 300), (2, 16383), (2, 16400)]);
            let item = match e.ty {
                Ty::S => Item::S(e.id, gen::gen_string(rng, len)),
                _ => Item::B(e.id, rng.bytes(len)),
            };
            Some(vec![WCall::Write(item, SizeOpt::Width(w))])
        }
        "full-width-overflow" => {
            let c: Vec<&&Elem> = allowed.iter().filter(|e| e.ty == Ty::Master).collect();
            if c.is_empty() {
                return None;
            }
            let e = **rng.pick(&c);
            let n = *rng.pick(&[125usize, 126, 200]);
            // Void child: header 2-3 bytes + n payload => content >= 127
            Some(vec![WCall::Write(Item::Full(e.id, vec![Item::B(VOID_ID, rng.bytes(n))]), SizeOpt::Width(1))])
        }
        "unknown-on-leaf" => {
            let c: Vec<&&Elem> = allowed.iter().filter(|e| e.ty != Ty::Master).collect();
            if c.is_empty() {
                return None;
            }
            let e = **rng.pick(&c);
            let v = sample_value(rng, e);
            Some(vec![if rng.chance(1, 2) { WCall::Write(v, SizeOpt::Unknown) } else { WCall::DeprecatedUnknown(v) }])
        }
        "bad-raw-id" => {
            let id = *rng.pick(&[0u64, 1, 0x7F, 0x0100, 0x3FFF, 0x00FF_FFFF, 0x8000, 0xFFFF, 1 << 63, 0x02_0000, 0x40]);
            if crate::spec::ref_id_wellformed(id) || spec.get(id).is_some() {
                return None;
            }
            let n = rng.urange(0, 9);
            let opt = if rng.chance(1, 3) { SizeOpt::Width(rng.urange(1, 8)) } else { SizeOpt::Default };
            Some(vec![WCall::Write(Item::Raw(id, rng.bytes(n)), opt)])
        }
        "wrong-end" => {
            let masters = spec.masters();
            let innermost = ids.last().copied();
            let c: Vec<u64> = masters.into_iter().filter(|m| Some(*m) != innermost).collect();
            if c.is_empty() {
                return None;
            }
            // prefer an outer open master (looks plausible) when there is one
            let outer: Vec<u64> = ids.iter().rev().skip(1).copied().filter(|m| Some(*m) != innermost).collect();
            let id = if !outer.is_empty() && rng.chance(1, 2) { *rng.pick(&outer) } else { *rng.pick(&c) };
            // an End may carry a size-width option like any other item (today's writer ignores it there); whatever a
            // writer makes of it, a rejected End must leave nothing of it behind
            let opt = if rng.chance(1, 3) { SizeOpt::Width(rng.urange(1, 8)) } else { SizeOpt::Default };
            Some(vec![WCall::Write(Item::End(id), opt)])
        }
        "full-invalid-child" => {
            let c: Vec<&&Elem> = allowed.iter().filter(|e| e.ty == Ty::Master).collect();
            if c.is_empty() {
                return None;
            }
            let e = **rng.pick(&c);
            let depth = rng.urange(1, 3);
            let it = build_bad_full(rng, spec, e, &ids, depth)?;
            let opt = match rng.below(8) {
                0 | 1 => SizeOpt::Width(rng.urange(2, 8)),
                2 => SizeOpt::Unknown,
                _ => SizeOpt::Default,
            };
            Some(vec![WCall::Write(it, opt)])
        }
        "several-in-a-row" => {
            let mut v = Vec::new();
            let n = rng.urange(2, 3);
            for _ in 0..n {
                let k = *rng.pick(&KINDS[..8]);
                if let Some(mut x) = make_failing(rng, spec, k, chain) {
                    v.append(&mut x);
                }
            }
            if v.len() < 2 {
                None
            } else {
                Some(v)
            }
        }
        _ => None,
    }
}

/// Full(master, [k valid children..., X]) where X is an invalid child at nesting depth `depth` (1 = direct child).
fn build_bad_full(rng: &mut Rng, spec: &Spec, e: &Elem, chain: &[u64], depth: usize) -> Option<Item> {
    let mut ch: Vec<u64> = chain.to_vec();
    ch.push(e.id);
    let allowed: Vec<&Elem> = spec.allowed_under(&ch);
    let mut children: Vec<Item> = Vec::new();
    let k = rng.urange(0, 3);
    for _ in 0..k {
        let leaves: Vec<&&Elem> = allowed.iter().filter(|x| x.ty != Ty::Master).collect();
        if leaves.is_empty() {
            break;
        }
        let pick: &Elem = **rng.pick(&leaves);
        children.push(sample_value(rng, pick));
    }
    // now and then: a nested master given as a bare Start (never closed inside the Full) before the bad child
    if rng.chance(1, 4) {
        let subs: Vec<&&Elem> = allowed.iter().filter(|x| x.ty == Ty::Master).collect();
        if !subs.is_empty() {
            let sub = **rng.pick(&subs);
            children.push(Item::Start(sub.id));
            // what follows is judged under the nested master; a leaf allowed there keeps the prefix valid
            let mut ch2 = ch.clone();
            ch2.push(sub.id);
            let leaves2: Vec<&Elem> = spec.allowed_under(&ch2).into_iter().filter(|x| x.ty != Ty::Master).collect();
            if !leaves2.is_empty() && rng.chance(1, 2) {
                let pick: &Elem = *rng.pick(&leaves2);
                children.push(sample_value(rng, pick));
            }
            // now and then nothing else is wrong: every child is acceptable where it stands, but the nested master is never
            // closed, so the Full as a whole cannot be closed (its End would not close the innermost open master)
            if rng.chance(1, 3) {
                return Some(Item::Full(e.id, children));
            }
            // the bad child: something not allowed under the nested master either
            let bad: Vec<&Elem> = spec.elems.iter().filter(|x| x.ty != Ty::Master && !crate::spec::ref_path_match(&x.path, &ch2)).collect();
            if bad.is_empty() {
                return None;
            }
            let pick: &Elem = *rng.pick(&bad);
            children.push(sample_value(rng, pick));
            return Some(Item::Full(e.id, children));
        }
    }
    if depth <= 1 {
        match rng.below(4) {
            0 => {
                // a stray End inside the Full: of another master, or of a master that is open further out
                let masters = spec.masters();
                let mut cands: Vec<u64> = masters.into_iter().filter(|m| *m != e.id).collect();
                if cands.is_empty() {
                    cands.push(e.id);
                }
                // ... or of the Full's own master (which a child must not close), possibly followed by more children
                let id = if rng.chance(1, 3) { e.id } else if !chain.is_empty() && rng.chance(1, 2) { *rng.pick(chain) } else { *rng.pick(&cands) };
                children.push(Item::End(id));
                if id == e.id && rng.chance(1, 2) {
                    let leaves: Vec<&&Elem> = allowed.iter().filter(|x| x.ty != Ty::Master).collect();
                    if !leaves.is_empty() {
                        let pick: &Elem = **rng.pick(&leaves);
                        children.push(sample_value(rng, pick));
                    }
                }
            }
            1 => {
                // a raw child with a malformed id
                let id = *rng.pick(&[0u64, 1, 0x7F, 0x0100, 0x3FFF, 0x8000, 0xFFFF, 0x40]);
                if crate::spec::ref_id_wellformed(id) || spec.get(id).is_some() {
                    return None;
                }
                children.push(Item::Raw(id, vec![1, 2, 3]));
            }
            _ => {
                let bad: Vec<&Elem> = spec.elems.iter().filter(|x| x.ty != Ty::Master && !crate::spec::ref_path_match(&x.path, &ch)).collect();
                if bad.is_empty() {
                    return None;
                }
                let pick: &Elem = *rng.pick(&bad);
                children.push(sample_value(rng, pick));
            }
        }
    } else {
        let sub: Vec<&&Elem> = allowed.iter().filter(|x| x.ty == Ty::Master).collect();
        if sub.is_empty() {
            return build_bad_full(rng, spec, e, chain, 1);
        }
        let s = **rng.pick(&sub);
        children.push(build_bad_full(rng, spec, s, &ch, depth - 1)?);
    }
    Some(Item::Full(e.id, children))
}

fn run(c: &mut Case) {
    // a quarter of the specifications have masters with global placeholders in their path (recursive nesting included)
    let o = DocOpts { p_width: 10, p_unknown: 15, raw: false, shaping: false, full_specs: c.rng.chance(1, 4) };
    let mut doc = gen_doc(&mut c.rng, c.tier, &o);
    // keep histories short: C19 is quadratic in history length
    let limit = c.tier.pick(24usize, 40);
    while crate::refcodec::count_nodes(&doc.tree) > limit && doc.tree.len() > 1 {
        doc.tree.pop();
    }
    if crate::refcodec::count_nodes(&doc.tree) > limit {
        doc.tree = vec![];
    }
    doc.spec.install();
    if doc.tree.is_empty() {
        c.count("skipped_tree_too_big_or_empty");
        return;
    }
    let p_collapse = *c.rng.pick(&[0u64, 0, 30, 70]);
    let mut r2 = c.rng.fork();
    let mut h = calls_from_tree(&doc.tree, &mut |_| r2.below(100) < p_collapse, c.rng.chance(1, 4));
    if c.rng.chance(1, 4) && h.len() > 2 {
        let n = c.rng.urange(1, h.len() - 1);
        h.truncate(n); // leave masters open: into_inner() has to close them in both runs
    }
    let base = run_calls(&h, ScriptedWrite::new());
    c.eval();
    if base.results.iter().any(|r| !r.is_ok()) {
        c.count("vacuous_history_not_valid");
        return;
    }
    let kind = KINDS[(c.idx % KINDS.len() as u64) as usize];
    let positions: Vec<usize> = if c.tier == Tier::Thorough || h.len() <= 14 { (0..=h.len()).collect() } else { (0..8).map(|_| c.rng.urange(0, h.len())).collect() };
    for p in positions {
        let chain = shadow_at(&h, p);
        let (prefix, failing, suffix) = match make_failing3(&mut c.rng, &doc.spec, kind, &chain) {
            Some(f) => f,
            None => {
                c.count("vacuous_no_candidate");
                continue;
            }
        };
        // when accepted calls have to precede the failing one, the reference history contains them too
        let base_local;
        let (base, h): (&crate::wr::WRun, Vec<WCall>) = if prefix.is_empty() && suffix.is_empty() {
            (&base, h.clone())
        } else {
            let mut hb: Vec<WCall> = h[..p].to_vec();
            hb.extend(prefix.iter().cloned());
            hb.extend(suffix.iter().cloned());
            hb.extend(h[p..].iter().cloned());
            base_local = run_calls(&hb, ScriptedWrite::new());
            if base_local.results[..p + prefix.len()].iter().any(|r| !r.is_ok()) {
                c.count("vacuous_prefix_rejected");
                continue;
            }
            (&base_local, hb)
        };
        let p = p + prefix.len();
        let mut hp: Vec<WCall> = h[..p].to_vec();
        hp.extend(failing.iter().cloned());
        hp.extend(h[p..].iter().cloned());
        let run = run_calls(&hp, ScriptedWrite::new());
        c.eval();
        let ins = &run.results[p.min(run.results.len())..(p + failing.len()).min(run.results.len())];
        if let Some(WRes::Caught(cg)) = ins.iter().find(|r| matches!(r, WRes::Caught(_))) {
            c.violation(format!("C19/{}/{}", kind, cg.sig()), format!("failing call {}", cg.text()), doc_json(&doc).set("history", calls_json(&hp, 80)).set("inserted_at", J::u(p)));
            continue;
        }
        if ins.iter().any(|r| r.is_ok()) || ins.len() < failing.len() {
            c.count("vacuous_candidate_accepted");
            c.count(&format!("accepted_{}", kind));
            continue;
        }
        if ins.iter().any(|r| matches!(r, WRes::Err(crate::wr::WErr::Io { .. }))) {
            continue;
        }
        c.count("insertions_compared");
        c.count(&format!("kinds_{}", kind));
        let shape: String = chain.iter().map(|k| if k.1 { 'K' } else { 'U' }).collect();
        // results of the original calls
        let mut orig: Vec<&WRes> = run.results[..p].iter().collect();
        orig.extend(run.results[(p + failing.len()).min(run.results.len())..].iter());
        let wit = |sym: &str| {
            doc_json(&doc)
                .set("failure_kind", J::s(kind))
                .set("history_with_failing_calls", calls_json(&hp, 100))
                .set("inserted_at", J::u(p))
                .set("inserted_results", J::Arr(ins.iter().map(|r| J::s(r.short())).collect()))
                .set("open_masters_at_insertion", J::s(if shape.is_empty() { "none".to_string() } else { shape.clone() }))
                .set("bytes_without", J::s(hex_short(&base.bytes, 400)))
                .set("bytes_with", J::s(hex_short(&run.bytes, 400)))
                .set("finish_without", J::s(base.fin.short()))
                .set("finish_with", J::s(run.fin.short()))
                .set("symptom", J::s(sym))
        };
        let err_kind = ins.first().map(|r| r.kind()).unwrap_or_default();
        let later = orig.iter().zip(base.results.iter()).position(|(a, b)| a.kind() != b.kind());
        if orig.len() != base.results.len() || later.is_some() {
            let k = later.unwrap_or(0);
            c.violation(
                format!("C19/{}/{}/later-call-differs", kind, err_kind),
                format!("after the rejected call at position {}, original call #{} returned {} instead of {}", p, k, orig.get(k).map(|r| r.short()).unwrap_or_default(), base.results.get(k).map(|r| r.short()).unwrap_or_default()),
                wit("a later call behaves differently"),
            );
        } else if run.fin.kind() != base.fin.kind() {
            c.violation(format!("C19/{}/{}/finish-differs", kind, err_kind), format!("into_inner() ended {} instead of {}", run.fin.short(), base.fin.short()), wit("into_inner differs"));
        } else if !run.fin.is_ok() && !base.fin.is_ok() && (run.bytes.starts_with(&base.bytes) || base.bytes.starts_with(&run.bytes)) {
            // both histories end with into_inner() refusing: there is no final output, only what had been handed over so
            // far, and how early accepted bytes are handed over is C10's subject — one being a prefix of the other is enough
            c.count("unfinished_in_both_histories");
        } else if run.bytes != base.bytes {
            let at = run.bytes.iter().zip(base.bytes.iter()).position(|(x, y)| x != y).unwrap_or(run.bytes.len().min(base.bytes.len()));
            c.violation(format!("C19/{}/{}/bytes-differ", kind, err_kind), format!("final output differs at byte {} ({} vs {} bytes)", at, run.bytes.len(), base.bytes.len()), wit("final bytes differ"));
        }
        if !chain.is_empty() {
            c.nontrivial(mix(hash_str(kind), hash_str(&shape.chars().take(4).collect::<String>())));
        }
        if c.idx % 311 == 5 && p == 1 {
            c.set_sample(wit("none (sample)"));
        }
    }
}
