//! C17 — memory use is bounded by the configured tag size limit, whatever the input claims.
//!
//! Oracle: the counting global allocator (alloc.rs) measures, per API call, the peak growth of live heap bytes and
//! the largest single request made on the calling thread; a request above the hard ceiling (1 GiB) terminates the
//! worker with a record that the supervisor turns into a violation.

use crate::alloc::measure;
use crate::io::ScriptedRead;
use crate::json::J;
use crate::prng::{hash_str, mix};
use crate::rd::{make_iter, ErrRec, MaxSz, RCfg, ALLOW_IDS, ALLOW_OVERSIZE};
use crate::refcodec::{enc_unknown_size, enc_vint, id_bytes};
use crate::runner::{Case, PropDef};
use crate::spec::{Elem, Item, Spec, Ty, CRC_ID, PP, VOID_ID};
use crate::obs::guard;

pub static DEF: PropDef = PropDef {
    id: "C17",
    level: "exploration",
    rule: "each case: one hostile header — element type in {Binary, Utf8, UnsignedInt, raw tag (unknown id of 2, 5, 6, 7 or 8 bytes; tolerated or not), master} x declared size in {0, 1, M-1, M, M+1, 2M, 2^20, 2^32, 4*10^9, 4*10^9+1, 2^40, 2^56-2, random} encoded in a random vint width that can hold it x position {root, inside a known-size master (with and without oversize tolerance), inside an unknown-size master} x payload {absent, a few bytes, complete when small} x size limit M in {0, 5, 4096, 64 KiB, 1 MiB, default 4*10^9 (declared sizes <= 64 MiB only)} x initial capacity {16, 4096, 65536} x all 8 tolerance subsets — parsed by the real iterator (next() until the first error/None, then one try_recover() and next()). Around every API call the counting allocator measures peak live-heap growth and the largest single request on that thread; both must stay <= 16*max(B, capacity) + 64 KiB where, while the probed element is being handled, B = its declared size if within the limit, else 0, and afterwards (elements found in the random payload) B = M; an element within the limit must not be rejected with the size error, an element declaring more than the limit must not be returned as an item nor reach its payload (the call must end in InvalidTagSize or an earlier check's error: InvalidTagId / HierarchyError / OversizedChildElement / InvalidTagData); no panic or arithmetic overflow (overflow checks are on). Every 400th case is a hostile header after a recovery: 200-400 KiB of in-limit root elements, then a small known-size master with a leaf, 1-12 junk bytes (skipped with try_recover()), a leaf and a child declaring more than the bound but less than the stream offset; that child must be rejected by a header check and every call must stay within 16*max(M, capacity) + 64 KiB. Every 20 000th case instead parses one long valid stream (6 MiB quick / 24 MiB thorough) of in-limit elements of varying size and measures the growth over the whole parse against the same bound (memory creep). In the thorough tier eight curated cases are additionally replayed in a child process under `valgrind --tool=massif`; the peak of mem_heap_B over a baseline run (same setup, no parse) must satisfy the same bound — an oracle that does not depend on the harness allocator (skipped and counted if valgrind is unavailable). distinct = (type, size class relative to M, width, position, limit, capacity, tolerance); non-trivial iff declared size > capacity.",
    assumptions: &["the constant 16 is deliberately loose (today's worst legitimate ratio is about 3: old buffer + grown buffer + the payload copy handed to the tag); the faults this property is about are off by 10^3-10^12", "with the limit removed (None) nothing is promised; not exercised", "default-limit acceptance is only exercised up to 64 MiB declared"],
    cases_quick: 800_000,
    cases_thorough: 8_000_000,
    floors: &[("api_calls_measured", 60_000), ("over_limit_headers", 8_000), ("within_limit_missing_payload", 5_000), ("distinct_nontrivial", 800), ("rejected_InvalidTagSize", 3_000), ("long_streams_measured", 10)],
    exhaustive_note: None,
    run,
};

/// fixed allowance for the emission queue, the open-master stack and the monitor's own copy of the item
const SLACK: u64 = 64 << 10;

const M_ID: u64 = 0x1A45DFA3; // root master
const B_ID: u64 = 0x4DB1;
const S_ID: u64 = 0x4DB2;
const U_ID: u64 = 0x4DB3;
const CB_ID: u64 = 0x63A2; // Binary child of master
const CS_ID: u64 = 0x536E; // Utf8 child of master
const CM_ID: u64 = 0xAE; // master child of master

fn c17_spec() -> Spec {
    let e = |name: &str, id, ty, path| Elem { id, ty, path, name: name.to_string() };
    Spec {
        name: "C17".into(),
        elems: vec![
            e("Root", M_ID, Ty::Master, vec![]),
            e("RootBin", B_ID, Ty::B, vec![]),
            e("RootStr", S_ID, Ty::S, vec![]),
            e("RootInt", U_ID, Ty::U, vec![]),
            e("Bin", CB_ID, Ty::B, vec![PP::Id(M_ID)]),
            e("Str", CS_ID, Ty::S, vec![PP::Id(M_ID)]),
            e("Sub", CM_ID, Ty::Master, vec![PP::Id(M_ID)]),
            e("Crc32", CRC_ID, Ty::B, vec![PP::Glob(Some(1), None)]),
            e("Void", VOID_ID, Ty::B, vec![PP::Glob(None, None)]),
        ],
    }
}

/// Long valid stream of many in-limit elements of varying size: the heap growth over the WHOLE parse (items dropped as
/// they come) must stay within the same bound — catches buffers that creep up a little with every element.
fn run_long_stream(c: &mut Case) {
    let spec = c17_spec();
    spec.install();
    let m: usize = *c.rng.pick(&[512usize, 1024, 4096]);
    let capacity: usize = *c.rng.pick(&[16usize, 1024, 4096]);
    let total = c.tier.pick(6usize << 20, 24 << 20);
    let mut bytes: Vec<u8> = Vec::with_capacity(total + 8192);
    bytes.extend(id_bytes(M_ID));
    bytes.extend(enc_unknown_size(8));
    let mut n = 0usize;
    while bytes.len() < total {
        let len = c.rng.urange(m / 4, m);
        bytes.extend(id_bytes(if n % 3 == 0 { VOID_ID } else { CB_ID }));
        bytes.extend(enc_vint(len as u64, crate::refcodec::min_size_width(len as u64).unwrap()));
        let fill = c.rng.byte();
        bytes.resize(bytes.len() + len, fill);
        n += 1;
    }
    let cfg = RCfg { allow: 0, buffered: vec![], capacity: Some(capacity), max_size: MaxSz::Set(Some(m)), eof_end: true };
    let src = if c.rng.chance(1, 2) { ScriptedRead::new(bytes.clone()).with_chunks(vec![], c.rng.urange(1000, 70_000)) } else { ScriptedRead::new(bytes.clone()) };
    let mut src = src;
    src.keep_log = false;
    let mut it = make_iter(src, &cfg);
    let bound: u64 = 16 * (m.max(capacity) as u64) + SLACK;
    let (res, win) = measure(|| {
        guard(1 << 40, || {
            let mut items = 0usize;
            let mut err = None;
            loop {
                match it.next() {
                    None => break,
                    Some(Ok(t)) => {
                        items += 1;
                        drop(t);
                    }
                    Some(Err(e)) => {
                        err = Some(ErrRec::from(&e));
                        break;
                    }
                }
            }
            (items, err)
        })
    });
    c.eval();
    c.count("long_streams_measured");
    c.add("api_calls_measured", n as u64);
    c.max("long_stream_peak_growth_over_allowed_x1000", win.peak * 1000 / bound);
    let wit = J::obj().set("scenario", J::s("long valid stream")).set("stream_bytes", J::u(bytes.len())).set("elements", J::u(n)).set("limit_M", J::u(m)).set("capacity", J::u(capacity)).set("allowed_growth_bytes", J::u(bound)).set("peak_growth", J::u(win.peak)).set("largest_request", J::u(win.max_request));
    match res {
        Err(cg) => c.violation(format!("C17/long-stream/{}", cg.sig()), cg.text(), wit),
        Ok((items, err)) => {
            if err.is_some() || items != n + 2 {
                c.violation("C17/long-stream/parse-differs", format!("{} items, error {:?}; expected {} items", items, err.map(|e| e.short()), n + 2), wit);
            } else if win.peak > bound || win.max_request > bound {
                c.violation("C17/long-stream/memory-creep", format!("parsing {} in-limit elements (limit {}, capacity {}) grew the heap by {} bytes (largest request {}); allowed {}", n, m, capacity, win.peak, win.max_request, bound), wit);
            }
        }
    }
    c.nontrivial(mix(hash_str("long-stream"), mix(m as u64, capacity as u64)));
}

/// A hostile header *after* a recovery far into the stream: 200-400 KB of in-limit root elements, then a small known-size
/// master holding a leaf, a few junk bytes, a leaf, and a child that declares more than the limit (and more than the
/// memory bound) but less than the stream offset reached. The junk is skipped with try_recover(); whatever bookkeeping
/// the recovery did, the hostile child must be rejected by a header check and no call may exceed the memory bound.
fn run_after_recovery(c: &mut Case) {
    let spec = c17_spec();
    spec.install();
    let m: usize = *c.rng.pick(&[512usize, 4096]);
    let capacity: usize = *c.rng.pick(&[16usize, 64, 4096]);
    let allow = *c.rng.pick(&[0u8, 0, ALLOW_IDS, 3, 5, 7]);
    let bound: u64 = 16 * (m.max(capacity) as u64) + SLACK;
    let prefix_total = c.rng.urange(200 << 10, 400 << 10);
    let mut bytes: Vec<u8> = Vec::with_capacity(prefix_total + 8192);
    let mut n_prefix = 0usize;
    while bytes.len() < prefix_total {
        let len = c.rng.urange(m / 4, m);
        bytes.extend(id_bytes(B_ID));
        bytes.extend(enc_vint(len as u64, crate::refcodec::min_size_width(len as u64).unwrap()));
        let fill = c.rng.byte();
        bytes.resize(bytes.len() + len, fill);
        n_prefix += 1;
    }
    let declared: u64 = c.rng.urange(bound as usize + 1, bytes.len() - 1) as u64;
    let leaf = |payload: &[u8]| {
        let mut v = id_bytes(CB_ID);
        v.extend(enc_vint(payload.len() as u64, 1));
        v.extend_from_slice(payload);
        v
    };
    let junk_len = c.rng.urange(1, 12);
    let mut content: Vec<u8> = Vec::new();
    content.extend(leaf(&[1; 10]));
    content.extend(std::iter::repeat(0u8).take(junk_len));
    content.extend(leaf(&[2; 10]));
    let hostile_rel = content.len();
    content.extend(id_bytes(CB_ID));
    let hw = c.rng.urange(crate::refcodec::min_size_width(declared).unwrap(), 8);
    content.extend(enc_vint(declared, hw));
    let tail_len = c.rng.urange(0, 40);
    content.extend(c.rng.bytes(tail_len));
    let master_off = bytes.len();
    bytes.extend(id_bytes(M_ID));
    bytes.extend(enc_vint(content.len() as u64, 2));
    let hostile_off = bytes.len() + hostile_rel;
    bytes.extend(content);
    let cfg = RCfg { allow, buffered: vec![], capacity: Some(capacity), max_size: MaxSz::Set(Some(m)), eof_end: true };
    let mut src = if c.rng.chance(1, 2) { ScriptedRead::new(bytes.clone()).with_chunks(vec![], c.rng.urange(100, 70_000)) } else { ScriptedRead::new(bytes.clone()) };
    src.keep_log = false;
    let mut it = make_iter(src, &cfg);
    let wit = |msg: &str, extra: J| J::obj().set("scenario", J::s("hostile header after a recovery")).set("stream_bytes", J::u(bytes.len())).set("prefix_elements", J::u(n_prefix)).set("master_offset", J::u(master_off)).set("junk_bytes", J::u(junk_len)).set("hostile_child_offset", J::u(hostile_off)).set("declared_size", J::u(declared)).set("limit_M", J::u(m)).set("config", cfg.to_json()).set("allowed_growth_bytes", J::u(bound)).set("problem", J::s(msg)).set("detail", extra);
    let mut recovered = 0usize;
    let mut pending_recover = false;
    let mut last_err: Option<ErrRec> = None;
    for _ in 0..n_prefix + 24 {
        it.get_mut().begin_api_call();
        let recover = pending_recover;
        let (raw, win) = measure(|| {
            guard(1 << 30, || {
                if recover {
                    it.try_recover().map(|_| None)
                } else {
                    match it.next() {
                        None => Ok(None),
                        Some(Ok(t)) => Ok(Some(t)),
                        Some(Err(e)) => Err(e),
                    }
                }
            })
        });
        let res = raw.map(|r| r.map(|o| o.map(|t| Item::from_tag(&t))).map_err(|e| ErrRec::from(&e)));
        c.eval();
        c.count("api_calls_measured");
        if win.peak > bound || win.max_request > bound {
            c.violation(
                format!("C17/memory-bound/after-recovery/{}", if recover { "try_recover" } else { "next" }),
                format!("{} grew the heap by {} bytes (largest single request {}) — limit {}, capacity {}, allowed {}; a child declaring {} bytes follows a recovery at offset ~{}", if recover { "try_recover()" } else { "next()" }, win.peak, win.max_request, m, capacity, bound, declared, master_off),
                wit("heap growth above the bound", J::obj().set("peak_growth", J::u(win.peak)).set("largest_request", J::u(win.max_request))),
            );
            return;
        }
        pending_recover = false;
        match res {
            Err(cg) => {
                c.violation(format!("C17/after-recovery/{}", cg.sig()), cg.text(), wit("panic / overflow / budget", J::Null));
                return;
            }
            Ok(Ok(Some(item))) => {
                if it.last_emitted_tag_offset() == hostile_off && !item.is_end() {
                    c.violation("C17/over-limit-element-emitted/after-recovery", format!("the child declaring {} bytes (limit {}) was emitted as {}", declared, m, item.short()), wit("element above the limit not rejected", J::Null));
                    return;
                }
            }
            Ok(Ok(None)) => {
                if !recover {
                    break;
                }
                recovered += 1;
            }
            Ok(Err(e)) => {
                if recover {
                    break; // recovery failed (end of input): nothing more to observe
                }
                if e.pos().map(|p| p == hostile_off).unwrap_or(false) {
                    let ok = matches!(e, ErrRec::InvalidTagSize { .. } | ErrRec::OversizedChild { .. });
                    if !ok {
                        c.violation(format!("C17/over-limit-not-rejected-by-header-check/{}/after-recovery", e.kind()), format!("the child declaring {} > limit {} ended in {} instead of a header rejection", declared, m, e.short()), wit("payload of an over-limit element was attempted", J::Null));
                        return;
                    }
                    c.count("over_limit_headers");
                    c.count("hostile_headers_after_recovery_rejected");
                    last_err = Some(e);
                    break;
                }
                last_err = Some(e);
                if recovered >= 3 {
                    break;
                }
                pending_recover = true;
            }
        }
    }
    let _ = last_err;
    c.count("after_recovery_scenarios");
    c.nontrivial(mix(hash_str("after-recovery"), mix(m as u64, mix(capacity as u64, allow as u64))));
}

fn run(c: &mut Case) {
    if c.idx % 400 == 13 {
        run_after_recovery(c);
        return;
    }
    if c.idx == 3 && c.tier == crate::runner::Tier::Thorough {
        // independent second opinion on the allocator oracle: a handful of curated cases under valgrind massif
        run_massif_stage(c);
        return;
    }
    if c.idx % 20_000 == 7 {
        run_long_stream(c);
        return;
    }
    let spec = c17_spec();
    spec.install();
    // ---- configuration
    let limit_choice = c.rng.below(12);
    let (max_size, m): (MaxSz, u64) = match limit_choice {
        0 => (MaxSz::Set(Some(0)), 0),
        1 | 2 => (MaxSz::Set(Some(5)), 5),
        3 | 4 | 5 => (MaxSz::Set(Some(4096)), 4096),
        6 | 7 => (MaxSz::Set(Some(65536)), 65536),
        8 | 9 => (MaxSz::Set(Some(1 << 20)), 1 << 20),
        _ => (MaxSz::Default, 4_000_000_000),
    };
    let default_limit = max_size == MaxSz::Default;
    let capacity = *c.rng.pick(&[16usize, 4096, 65536]);
    let allow = c.rng.below(8) as u8;
    // ---- declared size
    let mut declared: u64 = match c.rng.below(14) {
        0 => 0,
        1 => 1,
        2 => m.saturating_sub(1),
        3 => m,
        4 => m + 1,
        5 => 2 * m + 2,
        6 => 1 << 20,
        7 => 1 << 32,
        8 => 4_000_000_000,
        9 => 4_000_000_001,
        10 => 1 << 40,
        11 => (1 << 56) - 2,
        12 => c.rng.below(1 << 24),
        _ => c.rng.next_u64() >> (8 + c.rng.below(48)),
    };
    if default_limit && declared <= m && declared > (64 << 20) {
        // acceptance under the default limit is only exercised up to 64 MiB (legitimate GB allocations would exhaust the box)
        declared = c.rng.below(64 << 20);
    }
    if default_limit && declared > (1 << 20) && declared <= m && !c.rng.chance(1, 20) {
        declared = c.rng.below(1 << 20);
    }
    let minw = (1..=8).find(|w| declared < (1u64 << (7 * w)) - 1).unwrap_or(8);
    let w = c.rng.urange(minw, 8);
    // ---- element and position
    let pos = c.rng.below(4); // 0 root, 1 in known master, 2 in known master + will need oversize tolerance, 3 in unknown master
    let kind = c.rng.below(5);
    let (id, tyname): (u64, &str) = match (kind, pos == 0) {
        (0, true) => (B_ID, "binary"),
        (0, false) => (CB_ID, "binary"),
        (1, true) => (S_ID, "utf8"),
        (1, false) => (CS_ID, "utf8"),
        (2, _) => (*c.rng.pick(&[0x7ABCu64, 0x7ABC, 0x08_1234_5678, 0x04_1122_3344_55, 0x02_1122_3344_5566, 0x01_1122_3344_5566_77]), "raw"),
        (3, true) => (M_ID, "master"),
        (3, false) => (CM_ID, "master"),
        (_, true) => (U_ID, "uint"),
        (_, false) => (VOID_ID, "void"),
    };
    let mut bytes: Vec<u8> = Vec::new();
    match pos {
        1 => {
            // parent large enough to hold the child (may itself exceed the limit -> rejected first: an earlier check)
            bytes.extend(id_bytes(M_ID));
            let hdr = id_bytes(id).len() as u64 + w as u64;
            bytes.extend(enc_vint((declared.saturating_add(hdr)).min((1 << 56) - 2), 8));
        }
        2 => {
            bytes.extend(id_bytes(M_ID));
            bytes.extend(enc_vint(40, 1)); // small parent: child overruns it
        }
        3 => {
            bytes.extend(id_bytes(M_ID));
            bytes.extend(enc_unknown_size(c.rng.urange(1, 8)));
        }
        _ => {}
    }
    let elem_off = bytes.len();
    bytes.extend(id_bytes(id));
    bytes.extend(enc_vint(declared, w));
    let payload_present = match c.rng.below(4) {
        0 => 0usize,
        1 => c.rng.urange(1, 20),
        2 => (declared as usize).min(3000),
        _ => (declared as usize).min(c.rng.urange(0, 200)),
    };
    bytes.extend(c.rng.bytes(payload_present));
    let cfg = RCfg { allow, buffered: vec![], capacity: Some(capacity), max_size, eof_end: c.rng.chance(3, 4) };
    let within = declared <= m;
    let b = if within && tyname != "master" { declared } else { 0 };
    let bound: u64 = 16 * b.max(capacity as u64) + SLACK;
    let src = if c.rng.chance(1, 3) { ScriptedRead::new(bytes.clone()).with_chunks(vec![], c.rng.urange(1, 64)) } else { ScriptedRead::new(bytes.clone()) };
    let mut src = src;
    src.keep_log = false;
    let mut it = make_iter(src, &cfg);
    let wit = |msg: &str, extra: J| {
        J::obj()
            .set("bytes", J::hex(&bytes[..bytes.len().min(64)]))
            .set("byte_len", J::u(bytes.len()))
            .set("element", J::s(format!("{} id {:x} at offset {}", tyname, id, elem_off)))
            .set("declared_size", J::u(declared))
            .set("size_field_width", J::u(w))
            .set("position", J::s(["root", "inside-known-size-master", "inside-small-known-size-master", "inside-unknown-size-master"][pos as usize]))
            .set("config", cfg.to_json())
            .set("limit_M", J::u(m))
            .set("allowed_growth_bytes", J::u(bound))
            .set("problem", J::s(msg))
            .set("detail", extra)
    };
    let sizeclass = if declared == 0 { "0" } else if declared < m { "<M" } else if declared == m { "=M" } else if declared <= 2 * m + 2 { "<=2M" } else if declared < (1 << 32) { "<2^32" } else { ">=2^32" };
    let sigctx = format!("{}/{}/{}", tyname, sizeclass, ["root", "in-known", "in-small-known", "in-unknown"][pos as usize]);
    if c.verbose {
        eprintln!("{}", wit("(verbose)", J::Null).to_pretty());
    }
    // ---- drive: next() until error/None (max 6 calls), then try_recover + next
    let mut seen_elem_item = false;
    // the tight, declared-size based bound applies while the probed element is being handled; afterwards (other
    // elements found in the random payload) the general bound 16*max(M, capacity, 64 KiB) + 1 MiB applies
    let bound_general: u64 = 16 * m.max(capacity as u64) + SLACK;
    let mut probe_done = false;
    let mut first_err: Option<ErrRec> = None;
    for step in 0..8 {
        it.get_mut().begin_api_call();
        let recover = step >= 1 && first_err.is_some() && step % 2 == 1;
        // only the library call is inside the measured window: converting tags / formatting errors happens afterwards
        let (raw, win) = measure(|| {
            guard(1 << 24, || {
                if recover {
                    it.try_recover().map(|_| None)
                } else {
                    match it.next() {
                        None => Ok(None),
                        Some(Ok(t)) => Ok(Some(t)),
                        Some(Err(e)) => Err(e),
                    }
                }
            })
        });
        let res = raw.map(|r| r.map(|o| o.map(|t| Item::from_tag(&t))).map_err(|e| ErrRec::from(&e)));
        c.eval();
        c.count("api_calls_measured");
        // the tight bound charges the whole call to the probed element: only fair when nothing follows it in the input
        // (a reader that looks one element ahead may allocate for the next one, within the limit, in the same call)
        let bound = if probe_done || (payload_present as u64) > declared { bound_general } else { bound };
        c.max("peak_growth_over_allowed_x1000", win.peak * 1000 / bound);
        if win.peak > bound || win.max_request > bound {
            c.violation(
                format!("C17/memory-bound/{}/{}", if recover { "try_recover" } else { "next" }, sigctx),
                format!("{} grew the heap by {} bytes (largest single request {}) with declared size {}, limit {}, capacity {}; allowed {}", if recover { "try_recover()" } else { "next()" }, win.peak, win.max_request, declared, m, capacity, bound),
                wit("heap growth above the bound", J::obj().set("peak_growth", J::u(win.peak)).set("largest_request", J::u(win.max_request)).set("allocations", J::u(win.allocs))),
            );
            return;
        }
        match res {
            Err(cg) => {
                c.violation(format!("C17/{}/{}", cg.sig(), sigctx), format!("{} {}", if recover { "try_recover()" } else { "next()" }, cg.text()), wit("panic / overflow / budget", J::Null));
                return;
            }
            Ok(Ok(Some(item))) => {
                let at_elem = it.last_emitted_tag_offset() == elem_off;
                if it.last_emitted_tag_offset() >= elem_off && !item.is_end() {
                    probe_done = true;
                }
                if default_limit && at_elem {
                    // under the 4 GB default limit, whatever follows the probed element (random payload bytes read as
                    // children / siblings) may legitimately allocate a lot: stop once the probed element is through
                    if !within && !item.is_end() && item.id() == id {
                        c.violation(format!("C17/over-limit-element-emitted/{}", sigctx), format!("element declaring {} bytes was emitted as {} although the limit is {}", declared, item.short(), m), wit("element above the limit not rejected", J::Null));
                        return;
                    }
                    break;
                }
                if item.id() == id && !item.is_end() && at_elem {
                    seen_elem_item = true;
                    if !within {
                        c.violation(format!("C17/over-limit-element-emitted/{}", sigctx), format!("element declaring {} bytes was emitted as {} although the limit is {}", declared, item.short(), m), wit("element above the limit not rejected", J::Null));
                        return;
                    }
                }
            }
            Ok(Ok(None)) => {
                if !recover {
                    break;
                }
            }
            Ok(Err(e)) => {
                probe_done = true;
                if first_err.is_none() && !recover {
                    c.count(&format!("rejected_{}", e.kind()));
                    // within the limit: the size error must not be raised for this element
                    if within && matches!(&e, ErrRec::InvalidTagSize { pos, .. } if *pos == elem_off) {
                        c.violation(format!("C17/within-limit-rejected/{}", sigctx), format!("element declaring {} bytes was rejected with InvalidTagSize although the limit in force is {}", declared, m), wit("size error below the limit", J::Null));
                        return;
                    }
                    // over the limit: must be the size error or an earlier check, never an attempt at the payload
                    if !within && e.pos().map(|p| p == elem_off).unwrap_or(false) {
                        let ok = matches!(e, ErrRec::InvalidTagSize { .. } | ErrRec::InvalidTagId { .. } | ErrRec::OversizedChild { .. } | ErrRec::InvalidTagData { .. });
                        if !ok {
                            c.violation(format!("C17/over-limit-not-rejected-by-header-check/{}/{}", e.kind(), sigctx), format!("element declaring {} > limit {} ended in {} instead of a header rejection", declared, m, e.short()), wit("payload was attempted", J::Null));
                            return;
                        }
                    }
                    first_err = Some(e);
                    if default_limit {
                        // after an error under the 4 GB default limit a resynchronised parse of random payload bytes may
                        // legitimately allocate GBs; the continuation is only exercised with explicit limits
                        break;
                    }
                } else if recover {
                    // try_recover failing is fine (EOF)
                }
                if first_err.is_some() && step >= 4 {
                    break;
                }
            }
        }
    }
    if !within {
        c.count("over_limit_headers");
    } else if payload_present < declared as usize {
        c.count("within_limit_missing_payload");
    }
    let _ = (seen_elem_item, ALLOW_IDS, ALLOW_OVERSIZE);
    if declared > capacity as u64 {
        c.nontrivial(mix(hash_str(&sigctx), mix(w as u64, mix(limit_choice.min(10), mix(capacity as u64, allow as u64)))));
    }
    if c.idx % 2501 == 17 {
        c.set_sample(wit("none (sample)", J::obj().set("first_error", J::s(first_err.map(|e| e.short()).unwrap_or("none".into())))));
    }
}


// ------------------------------------------------------------------ valgrind massif cross-check (thorough tier)

/// Curated cases replayed under `valgrind --tool=massif`: (name, limit, capacity, declared size, payload bytes present)
pub const MASSIF_CASES: [(&str, Option<usize>, usize, u64, usize); 8] = [
    ("within-limit-complete", Some(4096), 16, 4096, 4096),
    ("over-limit-1MiB", Some(4096), 16, 1 << 20, 0),
    ("over-limit-2^40", Some(4096), 4096, 1 << 40, 8),
    ("within-1MiB-missing-payload", Some(1 << 20), 65536, 1 << 20, 100),
    ("limit-0", Some(0), 16, 1, 1),
    ("default-limit-over-4e9", None, 65536, 4_000_000_001, 16),
    ("default-limit-32MiB-missing-payload", None, 4096, 32 << 20, 64),
    ("within-64KiB-complete", Some(65536), 4096, 65536, 65536),
];

/// Body of `vmon c17-massif-case <k|baseline>`: builds the input, and (unless baseline) parses it once.
pub fn massif_case_body(which: &str) {
    let spec = c17_spec();
    spec.install();
    let k: Option<usize> = which.parse().ok();
    let (_name, limit, capacity, declared, present) = MASSIF_CASES[k.unwrap_or(0).min(MASSIF_CASES.len() - 1)];
    let mut bytes = id_bytes(M_ID);
    bytes.extend(enc_unknown_size(8));
    bytes.extend(id_bytes(CB_ID));
    bytes.extend(enc_vint(declared, 8));
    bytes.resize(bytes.len() + present, 0x5A);
    let cfg = RCfg { allow: 0, buffered: vec![], capacity: Some(capacity), max_size: match limit { Some(m) => MaxSz::Set(Some(m)), None => MaxSz::Default }, eof_end: true };
    let mut it = make_iter(&bytes[..], &cfg);
    if k.is_none() {
        // baseline: everything but the parse
        std::hint::black_box(&mut it);
        return;
    }
    let mut n = 0;
    while let Some(r) = it.next() {
        n += 1;
        if r.is_err() || n > 16 {
            break;
        }
    }
    std::hint::black_box(n);
}

/// Peak `mem_heap_B` of a massif output file.
fn massif_peak(path: &str) -> Option<u64> {
    let txt = std::fs::read_to_string(path).ok()?;
    txt.lines().filter_map(|l| l.strip_prefix("mem_heap_B=")).filter_map(|v| v.trim().parse::<u64>().ok()).max()
}

fn run_massif_stage(c: &mut Case) {
    let exe = match std::env::current_exe() {
        Ok(e) => e,
        Err(_) => return,
    };
    let dir = format!("{}/harness/target/massif", std::env::var("VERIF_DIR").unwrap_or_else(|_| "/verif".into()));
    let _ = std::fs::create_dir_all(&dir);
    let run = |which: &str| -> Option<u64> {
        let out = format!("{}/massif.{}.{}.out", dir, std::process::id(), which);
        let st = std::process::Command::new("valgrind").args(["--tool=massif", "--time-unit=B", "--detailed-freq=1000000", "--max-snapshots=200", &format!("--massif-out-file={}", out)]).arg(&exe).args(["c17-massif-case", which]).output().ok()?;
        if !st.status.success() {
            let _ = std::fs::remove_file(&out);
            return None;
        }
        let p = massif_peak(&out);
        let _ = std::fs::remove_file(&out);
        p
    };
    let base = match run("baseline") {
        Some(b) => b,
        None => {
            c.count("massif_unavailable");
            return;
        }
    };
    for (k, (name, limit, capacity, declared, _present)) in MASSIF_CASES.iter().enumerate() {
        let peak = match run(&k.to_string()) {
            Some(p) => p,
            None => {
                c.count("massif_run_failed");
                continue;
            }
        };
        c.eval();
        c.count("massif_cases_checked");
        let m = limit.map(|x| x as u64).unwrap_or(4_000_000_000);
        let b = if *declared <= m { *declared } else { 0 };
        let bound = 16 * b.max(*capacity as u64) + SLACK;
        let growth = peak.saturating_sub(base);
        c.max("massif_growth_over_allowed_x1000", growth * 1000 / bound);
        if growth > bound {
            c.violation(
                format!("C17/massif/{}", name),
                format!("valgrind massif: heap peak grew by {} bytes over the baseline while parsing case '{}' (declared {}, limit {:?}, capacity {}); allowed {}", growth, name, declared, limit, capacity, bound),
                J::obj().set("case", J::s(*name)).set("massif_peak_bytes", J::u(peak)).set("massif_baseline_bytes", J::u(base)).set("allowed_growth_bytes", J::u(bound)).set("reproduce", J::s(format!("valgrind --tool=massif vmon c17-massif-case {}", k))),
            );
        }
    }
}
