//! C18 — derived specifications mean what was declared and are internally consistent.
//!
//! Three stages:
//!  1. library stage (every case): random declarations are expanded by the real macro implementation called as a
//!     library (derive_lib), both front-ends; the generated token stream is parsed and *interpreted* against the
//!     declaration table (match arms of every generated function);
//!  2. compiled stage (case 0): a batch of accepted declarations is written out as real macro invocations, compiled by
//!     cargo/rustc against /repo (feature derive-spec) and executed: behaviour of the generated code is checked
//!     against the tables, plus a write/read round trip and a hostile-bytes parse per derived spec;
//!  3. reject stage: systematically broken declarations must be rejected — by the macro (library call) or, failing
//!     that, by rustc (each one is a binary target of a generated crate that must fail to compile).

use crate::gen::{self, SpecBounds};
use crate::json::J;
use crate::obs::{guard, Caught};
use crate::prng::{hash_str, mix, Rng};
use crate::runner::{Case, PropDef};
use crate::spec::{Spec, Ty, CRC_ID, PP, VOID_ID};
use std::collections::{BTreeMap, BTreeSet};
use std::fmt::Write as _;

pub static DEF: PropDef = PropDef {
    id: "C18",
    level: "exploration",
    rule: "library stage: each case generates one well-formed declaration (random variant counts, all six data types, ids of 1-8 bytes, paths of any depth with trailing and intermediate global placeholders, root elements without doc_path) in both syntaxes, expands it with the real macro implementation (catching panics), requires identical token streams from the two front-ends, then parses the generated code and checks every match arm of get_tag_data_type / get_path_by_id / the six constructors / get_raw_tag / get_id / the six accessors and the rewritten enum against the declaration table (declared ids, plus Void/Crc32/RawTag, nothing else). compiled stage (case 0 of each run): a batch of 12 (quick) / 48 (thorough) accepted declarations is emitted as real `#[ebml_specification]` / `easy_ebml!` invocations with their tables, compiled by cargo against /repo and run: for every declared id and for undeclared probe ids the data type, path, constructor matrix, accessor matrix, get_id, raw-tag round trip are compared with the table, then a writer->reader round trip and hostile-bytes parses run on each derived spec under catch_unwind ('Bad specification' panics). reject stage (cases 1..): each listed class of broken declaration (duplicate ids incl. collision with Void/Crc32, unknown parent, non-master parent of a leaf / of a master, path not extending the parent's path by wrong prefix / missing segment / extra segment for leaves and masters, zero-maximum and adjacent placeholders, missing id / data_type, unknown data type, unknown attribute), minimal and embedded in a random declaration, must be rejected by the macro or, when the macro accepts it, by rustc (one binary target per declaration in a generated crate; it must fail to compile). distinct = declaration shape (variant count, type multiset, path-shape classes) / (broken class, embedding); non-trivial iff the declaration has >= 2 masters and a placeholder, or is a broken one.",
    assumptions: &["interpreting the generated token stream is validated against real compiled behaviour by the compiled stage of the same run", "only the classes named in the property are demanded to be rejected (e.g. min > max bounds or ill-formed ids are not)", "cargo/rustc offline with the registry cache of this sandbox"],
    cases_quick: 1_500,
    cases_thorough: 60_000,
    floors: &[("declarations_expanded", 400), ("arms_checked", 20_000), ("front_ends_compared", 400), ("compiled_specs_checked", 10), ("broken_declarations", 40), ("distinct_nontrivial", 100)],
    exhaustive_note: None,
    run,
};

// ------------------------------------------------------------------ declarations

#[derive(Clone, Debug, PartialEq)]
pub enum Seg {
    Name(String),
    Glob(Option<u64>, Option<u64>),
}

#[derive(Clone, Debug)]
pub struct VarDecl {
    pub name: String,
    /// how the id literal is spelled: 0 = 0xab, 1 = 0xAB, 2 = decimal, 3 = 0x_a_b style underscores
    pub spell: u8,
    pub id: u64,
    pub ty: Ty,
    pub path: Vec<Seg>, // empty => no doc_path attribute (root element)
}

#[derive(Clone, Debug)]
pub struct Decl {
    pub name: String,
    pub vars: Vec<VarDecl>,
}

fn ty_ident(t: Ty) -> &'static str {
    t.name()
}

pub fn decl_from_spec(spec: &Spec, name: &str) -> Decl {
    let mut vars = Vec::new();
    for e in &spec.elems {
        if e.id == VOID_ID || e.id == CRC_ID {
            continue;
        }
        let path = e
            .path
            .iter()
            .map(|p| match p {
                PP::Id(i) => Seg::Name(spec.get(*i).unwrap().name.clone()),
                PP::Glob(a, b) => Seg::Glob(*a, *b),
            })
            .collect();
        vars.push(VarDecl { name: e.name.clone(), spell: 0, id: e.id, ty: e.ty, path });
    }
    Decl { name: name.to_string(), vars }
}

fn id_text(id: u64, spell: u8) -> String {
    match spell % 4 {
        0 => format!("{:#x}", id),
        1 => format!("{:#X}", id),
        2 => format!("{}", id),
        _ => {
            let h = format!("{:x}", id);
            if h.len() > 2 {
                format!("0x{}_{}", &h[..h.len() / 2], &h[h.len() / 2..])
            } else {
                format!("0x{}", h)
            }
        }
    }
}

fn seg_text(s: &Seg) -> String {
    match s {
        Seg::Name(n) => n.clone(),
        Seg::Glob(a, b) => format!("({}-{})", a.map(|x| x.to_string()).unwrap_or_default(), b.map(|x| x.to_string()).unwrap_or_default()),
    }
}

fn path_text(p: &[Seg]) -> String {
    p.iter().map(seg_text).collect::<Vec<_>>().join("/")
}

impl Decl {
    pub fn attribute_form(&self, with_macro_attr: bool) -> String {
        let mut s = String::new();
        if with_macro_attr {
            s.push_str("#[ebml_iterable::specs::ebml_specification]\n");
        }
        let _ = writeln!(s, "#[derive(Clone, Debug, PartialEq)]\npub enum {} {{", self.name);
        for v in &self.vars {
            let _ = write!(s, "    #[id({})] #[data_type(TagDataType::{})] ", id_text(v.id, v.spell), ty_ident(v.ty));
            if !v.path.is_empty() {
                let _ = write!(s, "#[doc_path({})] ", path_text(&v.path));
            }
            let _ = writeln!(s, "{},", v.name);
        }
        s.push_str("}\n");
        s
    }
    pub fn easy_form(&self, with_macro: bool) -> String {
        let mut s = String::new();
        if with_macro {
            s.push_str("ebml_iterable::specs::easy_ebml! {\n");
        }
        let _ = writeln!(s, "#[derive(Clone, Debug, PartialEq)]\npub enum {} {{", self.name);
        for v in &self.vars {
            let mut p = path_text(&v.path);
            if !p.is_empty() {
                p.push('/');
            }
            let _ = writeln!(s, "    {}{} : {} = {},", p, v.name, ty_ident(v.ty), id_text(v.id, v.spell));
        }
        s.push_str("}\n");
        if with_macro {
            s.push_str("}\n");
        }
        s
    }
    /// declaration table incl. the elements the macro adds
    pub fn table(&self) -> BTreeMap<u64, (String, Ty, Vec<TPath>)> {
        let ids: BTreeMap<&str, u64> = self.vars.iter().map(|v| (v.name.as_str(), v.id)).collect();
        let mut t = BTreeMap::new();
        for v in &self.vars {
            let p = v
                .path
                .iter()
                .map(|s| match s {
                    Seg::Name(n) => TPath::Id(*ids.get(n.as_str()).unwrap_or(&0)),
                    Seg::Glob(a, b) => TPath::Glob(*a, *b),
                })
                .collect();
            t.insert(v.id, (v.name.clone(), v.ty, p));
        }
        t.insert(CRC_ID, ("Crc32".into(), Ty::B, vec![TPath::Glob(Some(1), None)]));
        t.insert(VOID_ID, ("Void".into(), Ty::B, vec![TPath::Glob(None, None)]));
        t
    }
}

#[derive(Clone, Debug, PartialEq, Eq, PartialOrd, Ord)]
pub enum TPath {
    Id(u64),
    Glob(Option<u64>, Option<u64>),
}

pub fn random_decl(rng: &mut Rng, name: &str) -> Decl {
    let b = if rng.chance(1, 2) { SpecBounds::FULL } else { SpecBounds::PLAIN };
    let spec = match rng.below(12) {
        0 => gen::z_test(),
        1 => gen::z_kitchen(true),
        2 => gen::z_deep(rng.urange(2, 6)),
        _ => gen::random_spec(rng, &b),
    };
    let mut d = decl_from_spec(&spec, name);
    // variant names must be distinct identifiers and must not collide with the added variants
    let mut seen = BTreeSet::new();
    for (i, v) in d.vars.iter_mut().enumerate() {
        v.spell = if rng.chance(1, 2) { 0 } else { rng.below(4) as u8 };
        if !seen.insert(v.name.clone()) || ["Crc32", "Void", "RawTag"].contains(&v.name.as_str()) {
            let old = v.name.clone();
            v.name = format!("{}X{}", old, i);
            let newn = v.name.clone();
            seen.insert(newn);
        }
    }
    // a third of the declarations list their variants in random order (children before parents, leaves before masters)
    if rng.chance(1, 3) {
        rng.shuffle(&mut d.vars);
    }
    d
}

// ------------------------------------------------------------------ interpretation of the generated code

#[derive(Default, Debug)]
pub struct Generated {
    pub variants: BTreeMap<String, String>, // variant -> field type text
    pub data_type: BTreeMap<u64, String>,
    pub paths: BTreeMap<u64, Vec<TPath>>,
    pub ctor: BTreeMap<String, BTreeMap<u64, String>>, // fn name -> id -> variant
    pub get_id: BTreeMap<String, u64>,
    pub accessors: BTreeMap<String, BTreeSet<String>>, // fn name -> variants
    pub raw_ctor_ok: bool,
    pub problems: Vec<String>,
}

fn lit_u64(e: &syn::Expr) -> Option<u64> {
    match e {
        syn::Expr::Lit(l) => match &l.lit {
            syn::Lit::Int(i) => i.base10_parse::<u64>().ok(),
            _ => None,
        },
        syn::Expr::Paren(p) => lit_u64(&p.expr),
        _ => None,
    }
}

fn pat_u64(p: &syn::Pat) -> Option<u64> {
    match p {
        syn::Pat::Lit(l) => lit_u64(&l.expr),
        _ => None,
    }
}

/// the alternatives of a pattern (`a | b | c` in a match arm), a single pattern being its own only alternative
fn pat_alts(p: &syn::Pat) -> Vec<&syn::Pat> {
    match p {
        syn::Pat::Or(o) => o.cases.iter().flat_map(pat_alts).collect(),
        _ => vec![p],
    }
}

/// all ids named by a pattern, None if some alternative is not an integer literal
fn pat_u64s(p: &syn::Pat) -> Option<Vec<u64>> {
    pat_alts(p).into_iter().map(pat_u64).collect()
}

/// all variants named by a pattern, None if some alternative is not a variant pattern
fn pat_variants(p: &syn::Pat) -> Option<Vec<String>> {
    pat_alts(p).into_iter().map(pat_variant).collect()
}

fn last_ident(p: &syn::Path) -> String {
    p.segments.last().map(|s| s.ident.to_string()).unwrap_or_default()
}

fn opt_u64(e: &syn::Expr) -> Option<Option<u64>> {
    match e {
        syn::Expr::Path(p) if last_ident(&p.path) == "None" => Some(None),
        syn::Expr::Call(c) => {
            if let syn::Expr::Path(p) = &*c.func {
                if last_ident(&p.path) == "Some" {
                    return c.args.first().and_then(lit_u64).map(Some);
                }
            }
            None
        }
        _ => None,
    }
}

fn parse_path_array(e: &syn::Expr) -> Option<Vec<TPath>> {
    let arr = match e {
        syn::Expr::Reference(r) => match &*r.expr {
            syn::Expr::Array(a) => a,
            _ => return None,
        },
        _ => return None,
    };
    let mut out = Vec::new();
    for el in &arr.elems {
        let c = match el {
            syn::Expr::Call(c) => c,
            _ => return None,
        };
        let f = match &*c.func {
            syn::Expr::Path(p) => last_ident(&p.path),
            _ => return None,
        };
        let arg = c.args.first()?;
        if f == "Id" {
            out.push(TPath::Id(lit_u64(arg)?));
        } else if f == "Global" {
            let t = match arg {
                syn::Expr::Tuple(t) => t,
                syn::Expr::Paren(p) => match &*p.expr {
                    syn::Expr::Tuple(t) => t,
                    _ => return None,
                },
                _ => return None,
            };
            if t.elems.len() != 2 {
                return None;
            }
            out.push(TPath::Glob(opt_u64(&t.elems[0])?, opt_u64(&t.elems[1])?));
        } else {
            return None;
        }
    }
    Some(out)
}

/// `Some(Enum::Variant(..))` / `Some(TagDataType::X)` -> last path ident of the callee / argument
fn some_inner_ident(e: &syn::Expr) -> Option<String> {
    if let syn::Expr::Call(c) = e {
        if let syn::Expr::Path(p) = &*c.func {
            if last_ident(&p.path) == "Some" {
                return match c.args.first()? {
                    syn::Expr::Path(p) => Some(last_ident(&p.path)),
                    syn::Expr::Call(c2) => match &*c2.func {
                        syn::Expr::Path(p2) => Some(last_ident(&p2.path)),
                        _ => None,
                    },
                    _ => None,
                };
            }
        }
    }
    None
}

fn match_arms(block: &syn::Block) -> Option<&Vec<syn::Arm>> {
    for st in &block.stmts {
        let e = match st {
            syn::Stmt::Expr(e) | syn::Stmt::Semi(e, _) => e,
            _ => continue,
        };
        if let syn::Expr::Match(m) = e {
            return Some(&m.arms);
        }
    }
    None
}

fn pat_variant(p: &syn::Pat) -> Option<String> {
    match p {
        syn::Pat::TupleStruct(t) => Some(last_ident(&t.path)),
        syn::Pat::Path(p) => Some(last_ident(&p.path)),
        _ => None,
    }
}

pub fn interpret(tokens: proc_macro2::TokenStream, enum_name: &str) -> Generated {
    let mut g = Generated::default();
    let file: syn::File = match syn::parse2(tokens) {
        Ok(f) => f,
        Err(e) => {
            g.problems.push(format!("generated code does not parse as items: {}", e));
            return g;
        }
    };
    for item in &file.items {
        match item {
            syn::Item::Enum(en) => {
                if en.ident != enum_name {
                    g.problems.push(format!("unexpected enum {}", en.ident));
                }
                for v in &en.variants {
                    let fields = match &v.fields {
                        syn::Fields::Unnamed(u) => u.unnamed.iter().map(|f| quote::ToTokens::to_token_stream(&f.ty).to_string().replace(' ', "")).collect::<Vec<_>>().join(","),
                        syn::Fields::Unit => "<unit>".into(),
                        syn::Fields::Named(_) => "<named>".into(),
                    };
                    if v.attrs.iter().any(|a| a.path.is_ident("id") || a.path.is_ident("data_type") || a.path.is_ident("doc_path")) {
                        g.problems.push(format!("variant {} still carries macro attributes", v.ident));
                    }
                    g.variants.insert(v.ident.to_string(), fields);
                }
            }
            syn::Item::Impl(im) => {
                for it in &im.items {
                    let m = match it {
                        syn::ImplItem::Method(m) => m,
                        _ => continue,
                    };
                    let name = m.sig.ident.to_string();
                    if name == "get_raw_tag" {
                        let body = quote::ToTokens::to_token_stream(&m.block).to_string().replace(' ', "");
                        g.raw_ctor_ok = ["RawTag(id,data.to_vec())", "RawTag(id,data.to_owned())", "RawTag(id,data.into())", "RawTag(id,Vec::from(data))"].iter().any(|x| strip_paths(&body).contains(x));
                        if !g.raw_ctor_ok {
                            g.problems.push("get_raw_tag: body not recognised".into());
                        }
                        continue;
                    }
                    let arms = match match_arms(&m.block) {
                        Some(a) => a,
                        None => {
                            g.problems.push(format!("fn {} has no match", name));
                            continue;
                        }
                    };
                    let mut has_default = false;
                    for arm in arms {
                        if matches!(arm.pat, syn::Pat::Wild(_)) {
                            has_default = true;
                            let d = quote::ToTokens::to_token_stream(&arm.body).to_string().replace(' ', "");
                            let want = if name == "get_path_by_id" { "&[]" } else { "None" };
                            if d != want {
                                g.problems.push(format!("fn {}: default arm is `{}`", name, d));
                            }
                            continue;
                        }
                        match name.as_str() {
                            "get_tag_data_type" => match (pat_u64s(&arm.pat), some_inner_ident(&arm.body)) {
                                (Some(ids), Some(t)) => {
                                    for id in ids {
                                        if g.data_type.insert(id, t.clone()).is_some() {
                                            g.problems.push(format!("get_tag_data_type: duplicate arm for id {:#x}", id));
                                        }
                                    }
                                }
                                _ => g.problems.push("get_tag_data_type: unreadable arm".into()),
                            },
                            "get_path_by_id" => match (pat_u64s(&arm.pat), parse_path_array(&arm.body)) {
                                (Some(ids), Some(p)) => {
                                    for id in ids {
                                        g.paths.insert(id, p.clone());
                                    }
                                }
                                _ => g.problems.push("get_path_by_id: unreadable arm".into()),
                            },
                            "get_unsigned_int_tag" | "get_signed_int_tag" | "get_utf8_tag" | "get_binary_tag" | "get_float_tag" | "get_master_tag" => match (pat_u64(&arm.pat), some_inner_ident(&arm.body)) {
                                (Some(id), Some(v)) => {
                                    let body = quote::ToTokens::to_token_stream(&arm.body).to_string().replace(' ', "");
                                    let arg_ok = if name == "get_binary_tag" { body.ends_with("(data.to_vec()))") } else { body.ends_with("(data))") };
                                    if !arg_ok {
                                        g.problems.push(format!("{}: arm for {:#x} builds `{}`", name, id, body));
                                    }
                                    g.ctor.entry(name.clone()).or_default().insert(id, v);
                                }
                                _ => g.problems.push(format!("{}: unreadable arm", name)),
                            },
                            "get_id" => {
                                let v = pat_variant(&arm.pat);
                                let id = lit_u64(&arm.body);
                                match (v, id) {
                                    (Some(v), Some(id)) => {
                                        g.get_id.insert(v, id);
                                    }
                                    (Some(v), None) if v == "RawTag" => {
                                        g.get_id.insert(v, u64::MAX);
                                    }
                                    _ => g.problems.push("get_id: unreadable arm".into()),
                                }
                            }
                            "as_unsigned_int" | "as_signed_int" | "as_utf8" | "as_binary" | "as_float" | "as_master" => match pat_variants(&arm.pat) {
                                Some(vs) => {
                                    for v in vs {
                                        g.accessors.entry(name.clone()).or_default().insert(v);
                                    }
                                }
                                None => g.problems.push(format!("{}: unreadable arm", name)),
                            },
                            _ => {}
                        }
                    }
                    if !has_default && name != "get_id" {
                        g.problems.push(format!("fn {} has no default arm", name));
                    }
                    for k in ["get_unsigned_int_tag", "get_signed_int_tag", "get_utf8_tag", "get_binary_tag", "get_float_tag", "get_master_tag"] {
                        if name == k {
                            g.ctor.entry(k.to_string()).or_default();
                        }
                    }
                    for k in ["as_unsigned_int", "as_signed_int", "as_utf8", "as_binary", "as_float", "as_master"] {
                        if name == k {
                            g.accessors.entry(k.to_string()).or_default();
                        }
                    }
                }
            }
            _ => {}
        }
    }
    g
}

const CTOR_OF: [(Ty, &str, &str); 6] = [(Ty::U, "get_unsigned_int_tag", "as_unsigned_int"), (Ty::I, "get_signed_int_tag", "as_signed_int"), (Ty::S, "get_utf8_tag", "as_utf8"), (Ty::B, "get_binary_tag", "as_binary"), (Ty::F, "get_float_tag", "as_float"), (Ty::Master, "get_master_tag", "as_master")];

/// A type or expression text with every path prefix removed (`::std::vec::Vec<u8>` -> `Vec<u8>`): how the generated code
/// spells a path is its own business.
fn strip_paths(s: &str) -> String {
    let mut out = String::new();
    let mut word = String::new();
    let cs: Vec<char> = s.chars().filter(|c| !c.is_whitespace()).collect();
    let mut i = 0;
    while i < cs.len() {
        let ch = cs[i];
        if ch.is_alphanumeric() || ch == '_' {
            word.push(ch);
            i += 1;
        } else if ch == ':' && i + 1 < cs.len() && cs[i + 1] == ':' {
            word.clear(); // drop the segment before `::` (and a leading `::`)
            i += 2;
        } else {
            out.push_str(&word);
            word.clear();
            out.push(ch);
            i += 1;
        }
    }
    out.push_str(&word);
    out
}

fn field_type_of(t: Ty, enum_name: &str) -> String {
    match t {
        Ty::Master => format!("ebml_iterable::specs::Master<{}>", enum_name),
        Ty::U => "u64".into(),
        Ty::I => "i64".into(),
        Ty::S => "String".into(),
        Ty::B => "::std::vec::Vec<u8>".into(),
        Ty::F => "f64".into(),
    }
}

/// Compare interpreted generated code with the declaration. Returns (arms checked, problems with a class tag).
pub fn compare(d: &Decl, g: &Generated) -> (u64, Vec<(String, String)>) {
    let mut arms = 0u64;
    let mut p: Vec<(String, String)> = g.problems.iter().map(|x| ("shape".to_string(), x.clone())).collect();
    let table = d.table();
    // data types
    for (id, (name, ty, path)) in &table {
        arms += 1;
        match g.data_type.get(id) {
            Some(t) if t == ty.name() => {}
            other => p.push(("data-type".into(), format!("get_tag_data_type({:#x}) [{}] is {:?}, declared {}", id, name, other, ty.name()))),
        }
        arms += 1;
        let gp = g.paths.get(id).cloned().unwrap_or_default();
        if &gp != path {
            p.push((format!("path/{}", if path.iter().any(|x| matches!(x, TPath::Glob(..))) { "with-placeholder" } else { "ids-only" }), format!("get_path_by_id({:#x}) [{}] is {:?}, declared {:?}", id, name, gp, path)));
        }
        for (t, ctor, acc) in CTOR_OF.iter() {
            arms += 2;
            let has = g.ctor.get(*ctor).and_then(|m| m.get(id));
            if (*t == *ty) != has.is_some() {
                p.push((format!("constructor/{}", ctor), format!("{}({:#x}) [{} : {}] {}", ctor, id, name, ty.name(), if has.is_some() { "constructs a tag although the type differs" } else { "does not construct the tag" })));
            } else if let Some(v) = has {
                if v != name {
                    p.push((format!("constructor/{}", ctor), format!("{}({:#x}) constructs variant {} instead of {}", ctor, id, v, name)));
                }
            }
            let acc_has = g.accessors.get(*acc).map(|s| s.contains(name)).unwrap_or(false);
            if (*t == *ty) != acc_has {
                p.push((format!("accessor/{}", acc), format!("{} {} variant {} [{}]", acc, if acc_has { "returns data for" } else { "returns nothing for" }, name, ty.name())));
            }
        }
        arms += 1;
        if g.get_id.get(name) != Some(id) {
            p.push(("get-id".into(), format!("get_id of {} is {:?}, declared {:#x}", name, g.get_id.get(name), id)));
        }
        arms += 1;
        let want_field = field_type_of(*ty, &d.name);
        if g.variants.get(name).map(|x| strip_paths(x)) != Some(strip_paths(&want_field)) {
            p.push(("variant-field".into(), format!("variant {} has field `{:?}`, expected `{}`", name, g.variants.get(name), want_field)));
        }
    }
    // nothing else
    for id in g.data_type.keys() {
        if !table.contains_key(id) {
            p.push(("extra-id".into(), format!("get_tag_data_type knows undeclared id {:#x}", id)));
        }
    }
    for id in g.paths.keys() {
        if !table.contains_key(id) {
            p.push(("extra-id".into(), format!("get_path_by_id knows undeclared id {:#x}", id)));
        }
    }
    // raw tag
    arms += 3;
    if g.variants.get("RawTag").map(|s| strip_paths(s)) != Some("u64,Vec<u8>".to_string()) {
        p.push(("raw-tag".into(), format!("RawTag variant is {:?}", g.variants.get("RawTag"))));
    }
    if !g.raw_ctor_ok {
        p.push(("raw-tag".into(), "get_raw_tag does not build RawTag(id, data.to_vec())".into()));
    }
    if !g.accessors.get("as_binary").map(|s| s.contains("RawTag")).unwrap_or(false) {
        p.push(("raw-tag".into(), "as_binary has no RawTag arm".into()));
    }
    for (acc, set) in &g.accessors {
        if acc != "as_binary" && set.contains("RawTag") {
            p.push(("raw-tag".into(), format!("{} returns data for RawTag", acc)));
        }
    }
    if g.get_id.get("RawTag") != Some(&u64::MAX) {
        p.push(("raw-tag".into(), "get_id has no RawTag(id, _) => *id arm".into()));
    }
    if g.variants.len() != table.len() + 1 {
        p.push(("variants".into(), format!("enum has {} variants, expected {} declared + Crc32 + Void + RawTag", g.variants.len(), table.len() - 2)));
    }
    (arms, p)
}

fn shape_hash(d: &Decl) -> u64 {
    let mut tys = [0u8; 6];
    let mut shapes = [0u8; 3];
    for v in &d.vars {
        tys[match v.ty { Ty::Master => 0, Ty::U => 1, Ty::I => 2, Ty::F => 3, Ty::S => 4, Ty::B => 5 }] += 1;
        let n = v.path.len();
        match v.path.iter().position(|s| matches!(s, Seg::Glob(..))) {
            None => shapes[0] += 1,
            Some(i) if i + 1 == n => shapes[1] += 1,
            Some(_) => shapes[2] += 1,
        }
    }
    mix(crate::prng::hash_bytes(&tys), mix(crate::prng::hash_bytes(&shapes), d.vars.len() as u64))
}

// ------------------------------------------------------------------ broken declarations

pub const BROKEN_CLASSES: [&str; 19] = [
    "duplicate-id",
    "duplicate-id-with-void",
    "duplicate-id-with-crc32",
    "unknown-parent",
    "non-master-parent-of-leaf",
    "non-master-parent-of-master",
    "wrong-prefix-leaf",
    "wrong-prefix-master",
    "missing-segment-leaf",
    "missing-segment-master",
    "extra-segment-leaf",
    "extra-segment-master",
    "zero-maximum-placeholder",
    "adjacent-placeholders",
    "placeholder-bounds-differ-from-parent-leaf",
    "placeholder-bounds-differ-from-parent-master",
    "missing-id",
    "missing-data-type-or-unknown-type",
    "unknown-attribute",
];

/// Returns the attribute-form source of a broken declaration of the given class (None if the base has no suitable site).
pub fn make_broken(rng: &mut Rng, base: &Decl, class: &str) -> Option<String> {
    let mut d = base.clone();
    let masters: Vec<usize> = d.vars.iter().enumerate().filter(|(_, v)| v.ty == Ty::Master).map(|(i, _)| i).collect();
    let leaves: Vec<usize> = d.vars.iter().enumerate().filter(|(_, v)| v.ty != Ty::Master).map(|(i, _)| i).collect();
    // elements (of the wanted kind) whose path has at least n segments and whose direct parent is named
    let with_parent = |d: &Decl, want_master: bool, min_len: usize| -> Vec<usize> { d.vars.iter().enumerate().filter(|(_, v)| (v.ty == Ty::Master) == want_master && v.path.len() >= min_len && matches!(v.path.last(), Some(Seg::Name(_)))).map(|(i, _)| i).collect() };
    match class {
        "duplicate-id" => {
            if d.vars.len() < 2 {
                return None;
            }
            let a = rng.usize_below(d.vars.len());
            let mut b = rng.usize_below(d.vars.len());
            if a == b {
                b = (b + 1) % d.vars.len();
            }
            d.vars[b].id = d.vars[a].id;
            d.vars[b].spell = if rng.chance(1, 2) { d.vars[a].spell } else { d.vars[a].spell.wrapping_add(1 + rng.below(3) as u8) };
        }
        "duplicate-id-with-void" => {
            let a = rng.usize_below(d.vars.len());
            d.vars[a].id = VOID_ID;
            d.vars[a].spell = rng.below(4) as u8;
        }
        "duplicate-id-with-crc32" => {
            let a = rng.usize_below(d.vars.len());
            d.vars[a].id = CRC_ID;
            d.vars[a].spell = rng.below(4) as u8;
        }
        "unknown-parent" => {
            let c: Vec<usize> = d.vars.iter().enumerate().filter(|(_, v)| v.path.iter().any(|s| matches!(s, Seg::Name(_)))).map(|(i, _)| i).collect();
            if c.is_empty() {
                return None;
            }
            let i = *rng.pick(&c);
            let k = d.vars[i].path.iter().position(|s| matches!(s, Seg::Name(_)))?;
            d.vars[i].path[k] = Seg::Name("NoSuchVariant".into());
        }
        "non-master-parent-of-leaf" | "non-master-parent-of-master" => {
            let want_master = class.ends_with("master");
            let c = with_parent(&d, want_master, 1);
            if c.is_empty() || leaves.is_empty() {
                return None;
            }
            let i = *rng.pick(&c);
            // make the direct parent a leaf: change the parent's type (keeps paths aligned)
            let pname = match d.vars[i].path.last() {
                Some(Seg::Name(n)) => n.clone(),
                _ => return None,
            };
            let pi = d.vars.iter().position(|v| v.name == pname)?;
            d.vars[pi].ty = *rng.pick(&Ty::LEAVES);
            // the former master may have other children; they are broken the same way, which is fine
        }
        "wrong-prefix-leaf" | "wrong-prefix-master" => {
            let c = with_parent(&d, class.ends_with("master"), 2);
            if c.is_empty() || masters.len() < 3 {
                return None;
            }
            let i = *rng.pick(&c);
            // replace the first segment by another master that is not the right one
            let cur = d.vars[i].path[0].clone();
            let other: Vec<String> = masters.iter().map(|m| d.vars[*m].name.clone()).filter(|n| Seg::Name(n.clone()) != cur && *n != d.vars[i].name).collect();
            if other.is_empty() {
                return None;
            }
            d.vars[i].path[0] = Seg::Name(rng.pick(&other).clone());
        }
        "missing-segment-leaf" | "missing-segment-master" => {
            let c = with_parent(&d, class.ends_with("master"), 3);
            if c.is_empty() {
                return None;
            }
            let i = *rng.pick(&c);
            let n = d.vars[i].path.len();
            // drop a segment that is not the direct parent
            let k = rng.usize_below(n - 1);
            d.vars[i].path.remove(k);
        }
        "extra-segment-leaf" | "extra-segment-master" => {
            let c = with_parent(&d, class.ends_with("master"), 1);
            if c.is_empty() || masters.len() < 2 {
                return None;
            }
            let i = *rng.pick(&c);
            let n = d.vars[i].path.len();
            // insert an extra master between the parent's path and the parent (or in front)
            let extra: Vec<String> = masters.iter().map(|m| d.vars[*m].name.clone()).filter(|x| *x != d.vars[i].name).collect();
            if extra.is_empty() {
                return None;
            }
            let k = rng.usize_below(n);
            d.vars[i].path.insert(k, Seg::Name(rng.pick(&extra).clone()));
        }
        "zero-maximum-placeholder" => {
            let c: Vec<usize> = d.vars.iter().enumerate().filter(|(_, v)| !v.path.is_empty()).map(|(i, _)| i).collect();
            if c.is_empty() {
                return None;
            }
            let i = *rng.pick(&c);
            let z = if rng.chance(1, 2) { Seg::Glob(None, Some(0)) } else { Seg::Glob(Some(0), Some(0)) };
            if let Some(k) = d.vars[i].path.iter().position(|s| matches!(s, Seg::Glob(..))) {
                d.vars[i].path[k] = z;
            } else {
                d.vars[i].path.push(z);
            }
        }
        "placeholder-bounds-differ-from-parent-leaf" | "placeholder-bounds-differ-from-parent-master" => {
            // right length, right direct parent, every named segment right: only a placeholder of the inherited prefix
            // carries other bounds than the parent's declaration (a different range of depths, not just another spelling)
            let want_master = class.ends_with("master");
            let c: Vec<usize> = d.vars.iter().enumerate().filter(|(_, v)| (v.ty == Ty::Master) == want_master && matches!(v.path.last(), Some(Seg::Name(_))) && v.path[..v.path.len() - 1].iter().any(|s| matches!(s, Seg::Glob(..)))).map(|(i, _)| i).collect();
            if c.is_empty() {
                return None;
            }
            let i = *rng.pick(&c);
            let n = d.vars[i].path.len();
            let ks: Vec<usize> = (0..n - 1).filter(|k| matches!(d.vars[i].path[*k], Seg::Glob(..))).collect();
            let k = *rng.pick(&ks);
            if let Seg::Glob(mn, mx) = d.vars[i].path[k].clone() {
                let lo = mn.unwrap_or(0);
                let new = match rng.below(3) {
                    0 => Seg::Glob(mn, match mx { Some(m) => if rng.chance(1, 2) { Some(m + 1 + rng.below(3)) } else { None }, None => Some(lo + 1 + rng.below(4)) }),
                    1 => Seg::Glob(Some(lo + 1), mx.map(|m| m.max(lo + 1))),
                    _ => Seg::Glob(Some(lo + 1 + rng.below(2)), match mx { Some(m) => Some(m.max(lo + 2) + 1), None => Some(lo + 5) }),
                };
                // must denote a different range
                let norm = |s: &Seg| match s { Seg::Glob(a, b) => (a.unwrap_or(0), b.unwrap_or(u64::MAX)), _ => (0, 0) };
                if norm(&new) == norm(&d.vars[i].path[k]) {
                    return None;
                }
                d.vars[i].path[k] = new;
            }
        }
        "adjacent-placeholders" => {
            let c: Vec<usize> = d.vars.iter().enumerate().filter(|(_, v)| !v.path.is_empty()).map(|(i, _)| i).collect();
            if c.is_empty() {
                return None;
            }
            let i = *rng.pick(&c);
            if let Some(k) = d.vars[i].path.iter().position(|s| matches!(s, Seg::Glob(..))) {
                d.vars[i].path.insert(k, Seg::Glob(Some(1), None));
            } else {
                d.vars[i].path.push(Seg::Glob(Some(1), None));
                d.vars[i].path.push(Seg::Glob(None, Some(2)));
            }
        }
        "missing-id" | "missing-data-type-or-unknown-type" | "unknown-attribute" => {
            // textual edits on the rendered source
            let i = rng.usize_below(d.vars.len());
            let src = d.attribute_form(false);
            let needle_id = format!("#[id({})] ", id_text(d.vars[i].id, d.vars[i].spell));
            let needle_ty = format!("#[data_type(TagDataType::{})] ", ty_ident(d.vars[i].ty));
            // make sure we edit variant i (ids are unique in a well-formed base)
            let pos = src.find(&needle_id)?;
            return Some(match class {
                "missing-id" => format!("{}{}", &src[..pos], &src[pos + needle_id.len()..]),
                "missing-data-type-or-unknown-type" => {
                    let tpos = pos + needle_id.len();
                    if !src[tpos..].starts_with(&needle_ty) {
                        return None;
                    }
                    if rng.chance(1, 2) {
                        format!("{}{}", &src[..tpos], &src[tpos + needle_ty.len()..])
                    } else {
                        format!("{}#[data_type(TagDataType::Zzyzx9)] {}", &src[..tpos], &src[tpos + needle_ty.len()..])
                    }
                }
                _ => {
                    // an attribute the macro does not know: a foreign name, a misspelt own name, or one of its own names
                    // behind a path prefix (`legacy::id`), next to the genuine attributes or (doc_path) instead of one
                    let extra = *rng.pick(&["#[frobnicate(3)] ", "#[idd(0x11)] ", "#[legacy::id(0x7F)] ", "#[v1::data_type(TagDataType::Binary)] ", "#[old::doc_path(Root)] ", "#[zzq::id(0x11)] "]);
                    format!("{}{}{}", &src[..pos], extra, &src[pos..])
                }
            });
        }
        _ => return None,
    }
    // whether a broken declaration is rejected must not depend on the order in which the variants are listed
    if rng.chance(1, 2) {
        rng.shuffle(&mut d.vars);
    }
    Some(d.attribute_form(false))
}

// ------------------------------------------------------------------ compiled stages (cargo)

fn harness_dir() -> String {
    format!("{}/harness", std::env::var("VERIF_DIR").unwrap_or_else(|_| "/verif".into()))
}

fn cargo(dir: &str, args: &[&str]) -> (bool, String) {
    let target = format!("{}/target/gen", harness_dir());
    let out = std::process::Command::new("cargo").args(args).arg("--offline").current_dir(dir).env("CARGO_TARGET_DIR", &target).env("CARGO_NET_OFFLINE", "true").output();
    match out {
        Ok(o) => (o.status.success(), format!("{}{}", String::from_utf8_lossy(&o.stdout), String::from_utf8_lossy(&o.stderr))),
        Err(e) => (false, format!("cannot run cargo: {}", e)),
    }
}

fn write_crate(dir: &str, name: &str, files: &[(String, String)]) -> Result<(), String> {
    let _ = std::fs::remove_dir_all(dir);
    std::fs::create_dir_all(format!("{}/src/bin", dir)).map_err(|e| e.to_string())?;
    let toml = format!("[package]\nname = \"{}\"\nversion = \"0.1.0\"\nedition = \"2021\"\n\n[workspace]\n\n[dependencies]\nebml-iterable = {{ path = \"/repo\", features = [\"derive-spec\"] }}\n\n[profile.dev]\ndebug = 0\nincremental = false\n", name);
    std::fs::write(format!("{}/Cargo.toml", dir), toml).map_err(|e| e.to_string())?;
    let lock = format!("{}/Cargo.lock", harness_dir());
    let _ = std::fs::copy(&lock, format!("{}/Cargo.lock", dir));
    for (rel, content) in files {
        std::fs::write(format!("{}/{}", dir, rel), content).map_err(|e| e.to_string())?;
    }
    Ok(())
}

fn table_source(d: &Decl) -> String {
    let mut s = String::from("&[\n");
    for (id, (name, ty, path)) in d.table() {
        let p: Vec<String> = path
            .iter()
            .map(|x| match x {
                TPath::Id(i) => format!("PathPart::Id({:#x})", i),
                TPath::Glob(a, b) => format!("PathPart::Global(({}, {}))", a.map(|v| format!("Some({})", v)).unwrap_or("None".into()), b.map(|v| format!("Some({})", v)).unwrap_or("None".into())),
            })
            .collect();
        let _ = writeln!(s, "        ({:#x}, \"{}\", TagDataType::{}, &[{}]),", id, name, ty.name(), p.join(", "));
    }
    s.push_str("    ]");
    s
}

const CHECKER_RS: &str = r#"
// generic behaviour checks of a derived specification against its declaration table
use ebml_iterable::specs::{EbmlSpecification, EbmlTag, Master, PathPart, TagDataType};
use ebml_iterable::{TagIterator, TagWriter};
use ebml_iterable::iterator::AllowableErrors;

pub type Table = &'static [(u64, &'static str, TagDataType, &'static [PathPart])];

pub fn check_spec<T>(label: &str, table: Table, seed: u64) -> Vec<String>
where T: EbmlSpecification<T> + EbmlTag<T> + Clone + PartialEq + std::fmt::Debug {
    let mut out = Vec::new();
    let mut fail = |m: String| out.push(format!("{}: {}", label, m));
    let types = [TagDataType::UnsignedInt, TagDataType::Integer, TagDataType::Utf8, TagDataType::Binary, TagDataType::Float, TagDataType::Master];
    let make = |id: u64, t: TagDataType| -> Option<T> { match t {
        TagDataType::UnsignedInt => T::get_unsigned_int_tag(id, 7),
        TagDataType::Integer => T::get_signed_int_tag(id, -7),
        TagDataType::Utf8 => T::get_utf8_tag(id, "x".to_string()),
        TagDataType::Binary => T::get_binary_tag(id, &[1, 2, 3]),
        TagDataType::Float => T::get_float_tag(id, 1.5),
        TagDataType::Master => T::get_master_tag(id, Master::Start),
    }};
    let mut checks = 0u64;
    for (id, name, ty, path) in table.iter() {
        checks += 1;
        if T::get_tag_data_type(*id) != Some(*ty) { fail(format!("get_tag_data_type({:#x}) [{}] = {:?}, declared {:?}", id, name, T::get_tag_data_type(*id), ty)); }
        if T::get_path_by_id(*id) != *path { fail(format!("get_path_by_id({:#x}) [{}] = {:?}, declared {:?}", id, name, T::get_path_by_id(*id), path)); }
        for t in types.iter() {
            checks += 1;
            let tag = make(*id, *t);
            if tag.is_some() != (*t == *ty) { fail(format!("constructor for {:?} on id {:#x} [{} : {:?}] returned {:?}", t, id, name, ty, tag)); continue; }
            if let Some(tag) = tag {
                if tag.get_id() != *id { fail(format!("get_id of constructed {:?} is {:#x}, expected {:#x}", tag, tag.get_id(), id)); }
                if T::get_tag_id(&tag) != *id || T::get_path_by_tag(&tag) != *path { fail(format!("get_tag_id/get_path_by_tag disagree for {:?}", tag)); }
                let acc = [tag.as_unsigned_int().is_some(), tag.as_signed_int().is_some(), tag.as_utf8().is_some(), tag.as_binary().is_some(), tag.as_float().is_some(), tag.as_master().is_some()];
                for (k, tt) in types.iter().enumerate() {
                    if acc[k] != (*tt == *ty) { fail(format!("accessor {:?} on {:?} returned {}", tt, tag, if acc[k] { "data" } else { "nothing" })); }
                }
                let val_ok = match ty {
                    TagDataType::UnsignedInt => tag.as_unsigned_int() == Some(&7),
                    TagDataType::Integer => tag.as_signed_int() == Some(&-7),
                    TagDataType::Utf8 => tag.as_utf8() == Some("x"),
                    TagDataType::Binary => tag.as_binary() == Some(&[1u8, 2, 3][..]),
                    TagDataType::Float => tag.as_float() == Some(&1.5),
                    TagDataType::Master => tag.as_master() == Some(&Master::Start),
                };
                if !val_ok { fail(format!("accessor of {:?} does not return the payload it was built with", tag)); }
            }
        }
    }
    // undeclared probe ids
    let mut x = seed | 1;
    let mut probes: Vec<u64> = vec![0, 1, 0x80, 0xFF, 0x4000, 0x1A45DFA3, u64::MAX];
    for _ in 0..24 { x ^= x << 13; x ^= x >> 7; x ^= x << 17; probes.push(x >> (x % 57)); }
    for p in probes {
        if table.iter().any(|e| e.0 == p) { continue; }
        checks += 1;
        if T::get_tag_data_type(p).is_some() { fail(format!("undeclared id {:#x} has data type {:?}", p, T::get_tag_data_type(p))); }
        if !T::get_path_by_id(p).is_empty() { fail(format!("undeclared id {:#x} has a path", p)); }
        for t in types.iter() { if make(p, *t).is_some() { fail(format!("constructor {:?} builds a tag for undeclared id {:#x}", t, p)); } }
        let raw = T::get_raw_tag(p, &[9, 8, 7]);
        if raw.get_id() != p || raw.as_binary() != Some(&[9u8, 8, 7][..]) || raw.as_unsigned_int().is_some() || raw.as_signed_int().is_some() || raw.as_utf8().is_some() || raw.as_float().is_some() || raw.as_master().is_some() {
            fail(format!("raw tag for {:#x} does not round trip: {:?}", p, raw));
        }
    }
    // Void / Crc32
    if T::get_tag_data_type(0xEC) != Some(TagDataType::Binary) || T::get_path_by_id(0xEC) != [PathPart::Global((None, None))] { fail("Void (0xEC, Binary, (-)) missing or wrong".to_string()); }
    if T::get_tag_data_type(0xBF) != Some(TagDataType::Binary) || T::get_path_by_id(0xBF) != [PathPart::Global((Some(1), None))] { fail("Crc32 (0xBF, Binary, (1-)) missing or wrong".to_string()); }

    // writer -> reader round trip on a document built from the table (root masters with one level of children), under catch_unwind
    let r = std::panic::catch_unwind(|| {
        let mut problems = Vec::new();
        let mut tags: Vec<T> = Vec::new();
        for (id, _n, ty, path) in table.iter() {
            if !path.is_empty() { continue; }
            if *ty == TagDataType::Master {
                tags.push(T::get_master_tag(*id, Master::Start).unwrap());
                for (cid, _cn, cty, cpath) in table.iter() {
                    if *cpath == [PathPart::Id(*id)] && *cty != TagDataType::Master {
                        if let Some(t) = match cty { TagDataType::UnsignedInt => T::get_unsigned_int_tag(*cid, 300), TagDataType::Integer => T::get_signed_int_tag(*cid, -300), TagDataType::Utf8 => T::get_utf8_tag(*cid, "héllo".into()), TagDataType::Binary => T::get_binary_tag(*cid, &[0u8; 130]), TagDataType::Float => T::get_float_tag(*cid, -2.25), _ => None } { tags.push(t); }
                    }
                }
                tags.push(T::get_binary_tag(0xEC, &[1, 2]).unwrap());
                tags.push(T::get_master_tag(*id, Master::End).unwrap());
            } else if let Some(t) = match ty { TagDataType::UnsignedInt => T::get_unsigned_int_tag(*id, 1), TagDataType::Integer => T::get_signed_int_tag(*id, -1), TagDataType::Utf8 => T::get_utf8_tag(*id, "r".into()), TagDataType::Binary => T::get_binary_tag(*id, &[]), TagDataType::Float => T::get_float_tag(*id, 0.5), _ => None } { tags.push(t); }
        }
        let mut w = TagWriter::new(Vec::new());
        for t in &tags { if let Err(e) = w.write(t) { problems.push(format!("writer rejected {:?}: {}", t, e)); return problems; } }
        let bytes = match w.into_inner() { Ok(b) => b, Err(e) => { problems.push(format!("into_inner: {}", e)); return problems; } };
        let back: Vec<Result<T, _>> = TagIterator::<_, T>::new(&bytes[..], &[]).collect();
        let vals: Vec<T> = back.iter().filter_map(|x| x.as_ref().ok().cloned()).collect();
        if back.iter().any(|x| x.is_err()) || vals != tags { problems.push(format!("round trip differs: wrote {} tags, read {:?}", tags.len(), back.iter().take(6).collect::<Vec<_>>())); }
        // hostile bytes: mutated document and pseudo-random bytes under every tolerance, buffered roots
        let mut y = seed ^ 0x9E3779B97F4A7C15;
        for round in 0..60u64 {
            let mut b = bytes.clone();
            for _ in 0..(1 + round % 4) { y ^= y << 13; y ^= y >> 7; y ^= y << 17; if !b.is_empty() { let i = (y as usize) % b.len(); b[i] = (y >> 32) as u8; } }
            if round % 5 == 0 { b = (0..40).map(|k| { y ^= y << 13; y ^= y >> 7; y ^= y << 17; (y >> (k % 50)) as u8 }).collect(); }
            let buffered: Vec<T> = if round % 2 == 0 { vec![] } else { table.iter().filter(|e| e.2 == TagDataType::Master).take(2).map(|e| T::get_master_tag(e.0, Master::Start).unwrap()).collect() };
            let mut it = TagIterator::<_, T>::new(&b[..], &buffered);
            it.set_max_allowable_tag_size(Some(1 << 16));
            match round % 4 { 1 => it.allow_errors(&[AllowableErrors::InvalidTagIds]), 2 => it.allow_errors(&[AllowableErrors::HierarchyProblems, AllowableErrors::OversizedTags]), 3 => it.allow_errors(&[AllowableErrors::InvalidTagIds, AllowableErrors::HierarchyProblems, AllowableErrors::OversizedTags]), _ => {} }
            let mut n = 0;
            while let Some(r) = it.next() { n += 1; if r.is_err() || n > 10_000 { break; } }
        }
        problems
    });
    match r {
        Ok(p) => for m in p { fail(m); },
        Err(e) => { let msg = e.downcast_ref::<String>().cloned().or(e.downcast_ref::<&str>().map(|s| s.to_string())).unwrap_or_default(); fail(format!("panic while using the derived spec with writer/iterator: {}", msg)); }
    }
    println!("SPEC {} checks={} failures={}", label, checks, out.len());
    out
}
"#;

/// Compile and run a batch of accepted declarations. Returns (specs checked, failures).
fn compiled_stage(decls: &[Decl], seed: u64) -> Result<(u64, Vec<String>), String> {
    let dir = format!("{}/gen_specs", harness_dir());
    let mut main = String::from("#![allow(dead_code, unused_imports, non_camel_case_types)]\nmod checker;\n");
    let mut calls = String::new();
    let mut files = vec![("src/checker.rs".to_string(), CHECKER_RS.to_string())];
    for (i, d) in decls.iter().enumerate() {
        let body = if i % 2 == 0 { d.attribute_form(true) } else { d.easy_form(true) };
        let src = format!("use ebml_iterable::specs::{{TagDataType, PathPart}};\n{}\npub const TABLE: crate::checker::Table = {};\n", body, table_source(d));
        files.push((format!("src/spec_{}.rs", i), src));
        let _ = writeln!(main, "mod spec_{};", i);
        let _ = writeln!(calls, "    failures.extend(checker::check_spec::<spec_{}::{}>(\"spec_{} ({})\", spec_{}::TABLE, {}));", i, d.name, i, if i % 2 == 0 { "attribute form" } else { "easy_ebml form" }, i, seed.wrapping_add(i as u64));
    }
    let _ = write!(main, "fn main() {{\n    std::panic::set_hook(Box::new(|_| {{}}));\n    let mut failures: Vec<String> = Vec::new();\n{}    for f in &failures {{ println!(\"FAIL {{}}\", f); }}\n    println!(\"DONE failures={{}}\", failures.len());\n}}\n", calls);
    files.push(("src/main.rs".to_string(), main));
    write_crate(&dir, "gen_specs", &files)?;
    let (ok, log) = cargo(&dir, &["build", "-q"]);
    if !ok {
        // an accepted declaration that does not compile is a violation; find which module rustc complains about
        let culprit: Vec<String> = log.lines().filter(|l| l.contains("--> src/spec_")).take(3).map(|l| l.trim().to_string()).collect();
        return Ok((0, vec![format!("the crate with the generated specifications does not compile: {} :: {}", culprit.join(" "), log.lines().filter(|l| l.starts_with("error")).take(3).collect::<Vec<_>>().join(" | "))]));
    }
    let exe = format!("{}/target/gen/debug/gen_specs", harness_dir());
    let out = std::process::Command::new(exe).output().map_err(|e| e.to_string())?;
    let text = String::from_utf8_lossy(&out.stdout).to_string();
    if !out.status.success() || !text.contains("DONE failures=") {
        return Ok((0, vec![format!("generated checker crashed: status {:?}, stderr {}", out.status, String::from_utf8_lossy(&out.stderr).lines().last().unwrap_or(""))]));
    }
    let n = text.lines().filter(|l| l.starts_with("SPEC ")).count() as u64;
    let fails: Vec<String> = text.lines().filter(|l| l.starts_with("FAIL ")).map(|l| l[5..].to_string()).collect();
    Ok((n, fails))
}

/// Each broken declaration that the macro library accepted becomes a bin target; returns for each whether rustc rejected it.
fn reject_compile_stage(sources: &[(String, String)]) -> Result<Vec<bool>, String> {
    if sources.is_empty() {
        return Ok(vec![]);
    }
    let dir = format!("{}/gen_reject", harness_dir());
    let mut files = Vec::new();
    for (i, (_class, src)) in sources.iter().enumerate() {
        let body = format!("#![allow(dead_code, unused_imports)]\nuse ebml_iterable::specs::TagDataType;\n#[ebml_iterable::specs::ebml_specification]\n{}\nfn main() {{}}\n", src);
        files.push((format!("src/bin/r{}.rs", i), body));
    }
    write_crate(&dir, "gen_reject", &files)?;
    let mut res = Vec::new();
    // one cargo invocation per bin keeps attribution trivial; deps are already built, each check takes a fraction of a second
    for i in 0..sources.len() {
        let (ok, _log) = cargo(&dir, &["check", "-q", "--bin", &format!("r{}", i)]);
        res.push(!ok);
    }
    Ok(res)
}

// ------------------------------------------------------------------ the monitor

fn run(c: &mut Case) {
    // ---------------- library stage (every case)
    let name = format!("S{}", c.idx % 1000);
    let d = random_decl(&mut c.rng, &name);
    let attr_src = d.attribute_form(false);
    let easy_src = d.easy_form(false);
    let wit = |msg: &str| J::obj().set("declaration_attribute_form", J::s(attr_src.clone())).set("declaration_easy_form", J::s(easy_src.clone())).set("problem", J::s(msg));
    let a = guard(1 << 30, || derive_lib::expand_attribute_form(&attr_src).map(|t| t.to_string()));
    c.eval();
    c.count("declarations_expanded");
    let a_tokens = match a {
        Err(cg) => {
            c.violation(format!("C18/macro-{}", cg.sig()), format!("#[ebml_specification] {}", cg.text()), wit("macro panicked"));
            return;
        }
        Ok(Err(e)) => {
            c.violation("C18/rejects-wellformed/attribute-form", format!("well-formed declaration rejected: {}", e), wit(&e));
            return;
        }
        Ok(Ok(t)) => t,
    };
    let e = guard(1 << 30, || derive_lib::expand_easy_form(&easy_src).map(|(t, l)| (t.to_string(), l)));
    match e {
        Err(cg) => {
            c.violation(format!("C18/easy-macro-{}", cg.sig()), format!("easy_ebml! {}", cg.text()), wit("macro panicked"));
        }
        Ok(Err(er)) if er.starts_with("re-parse of lowered easy_ebml") || er.starts_with("lowered easy_ebml does not carry") => {
            // the harness expands the easy form in two steps (lowering to the attribute form, then the shared expansion);
            // a macro that no longer lowers that way is not wrong for it: not comparable here, judged by the compiled stage
            c.count("easy_form_lowering_not_interpretable");
        }
        Ok(Err(er)) => {
            c.violation("C18/rejects-wellformed/easy-form", format!("well-formed easy_ebml declaration rejected: {}", er), wit(&er));
        }
        Ok(Ok((t, _lowered))) => {
            c.count("front_ends_compared");
            // the same code, however each front-end spells its paths (the attribute form repeats the user's spelling of
            // the data type, the easy form chooses its own)
            if strip_paths(&t) != strip_paths(&a_tokens) {
                let at = t.chars().zip(a_tokens.chars()).position(|(x, y)| x != y).unwrap_or(0);
                let ctx = |s: &str| s.chars().skip(at.saturating_sub(60)).take(160).collect::<String>();
                c.violation("C18/front-ends-differ", format!("the two front-ends generate different code (first difference at char {})", at), wit("token streams differ").set("attribute_form_code_near", J::s(ctx(&a_tokens))).set("easy_form_code_near", J::s(ctx(&t))));
            }
        }
    }
    let tokens: proc_macro2::TokenStream = a_tokens.parse().expect("tokens re-parse");
    let g = interpret(tokens, &d.name);
    // The interpreter reads the shape of code today's macro generates (one match per function; literal, or-ed or
    // variant patterns). A macro that lays its code out differently is not wrong for that: such a declaration is
    // counted as not interpretable and judged by the compiled stage alone (too many of them and the arms floor makes
    // the run inconclusive, never violated).
    let unreadable = !g.problems.is_empty();
    if unreadable {
        c.count("declarations_with_unreadable_generated_code");
    }
    let (arms, problems) = if unreadable { (0, Vec::new()) } else { compare(&d, &g) };
    c.add("arms_checked", arms);
    if let Some((class, msg)) = problems.first() {
        c.violation(format!("C18/generated-code/{}", class), format!("{} (and {} more)", msg, problems.len() - 1), wit(msg).set("all_problems", J::Arr(problems.iter().take(12).map(|p| J::s(format!("[{}] {}", p.0, p.1))).collect())));
    }
    let n_masters = d.vars.iter().filter(|v| v.ty == Ty::Master).count();
    if n_masters >= 2 && d.vars.iter().any(|v| v.path.iter().any(|s| matches!(s, Seg::Glob(..)))) {
        c.nontrivial(shape_hash(&d));
    }
    if c.idx % 97 == 5 {
        c.set_sample(J::obj().set("stage", J::s("library")).set("declaration_easy_form", J::s(easy_src.clone())).set("match_arms_checked", J::u(arms)).set("generated_code_chars", J::u(a_tokens.len())));
    }

    // ---------------- reject stage, library part (every case): one broken class per case
    let class = BROKEN_CLASSES[(c.idx % BROKEN_CLASSES.len() as u64) as usize];
    let embedded = c.rng.chance(1, 2);
    let base = if embedded { d.clone() } else { minimal_base() };
    let mut needs_rustc: Vec<(String, String)> = Vec::new();
    if let Some(src) = make_broken(&mut c.rng, &base, class) {
        c.count("broken_declarations");
        c.count(&format!("broken_{}", class));
        let r = guard(1 << 30, || derive_lib::expand_attribute_form(&src).map(|t| t.to_string()));
        c.eval();
        match r {
            // a panicking proc macro is a compile error, which is all the statement asks for a broken declaration
            // (a budget overrun is not a rejection)
            Err(Caught::Panic(_)) => c.count("broken_rejected_by_macro_panic"),
            Err(cg) => c.violation(format!("C18/macro-{}/broken-{}", cg.sig(), class), format!("macro {} on a broken declaration", cg.text()), J::obj().set("declaration", J::s(src.clone()))),
            Ok(Err(_)) => c.count("broken_rejected_by_macro"),
            Ok(Ok(expanded)) => {
                // an attribute the macro does not know has to be rejected by the macro or handed on to rustc (which rejects
                // it); if it is neither rejected nor present in the expansion it was swallowed and nothing can reject it
                let marker = ["frobnicate", "idd", "legacy", "v1", "old", "zzq"].iter().find(|m| src.contains(&format!("#[{}", m))).copied();
                match (class, marker) {
                    ("unknown-attribute", Some(m)) if !expanded.contains(m) => c.violation(
                        format!("C18/broken-accepted/unknown-attribute-swallowed"),
                        format!("the unknown attribute `{}…` is neither rejected by the macro nor present in its output: the declaration is accepted", m),
                        J::obj().set("broken_class", J::s(class)).set("declaration", J::s(src.clone())),
                    ),
                    _ => needs_rustc.push((class.to_string(), src.clone())),
                }
            }
        }
        c.nontrivial(mix(hash_str(class), embedded as u64));
    }

    // ---------------- compiled stages (serial; only a few cases carry them so that cargo runs stay bounded)
    if c.idx == 0 {
        let n = c.tier.pick(12usize, 48);
        let mut r2 = c.rng.fork();
        let decls: Vec<Decl> = (0..n).map(|i| random_decl(&mut r2, &format!("Spec{}", i))).collect();
        match compiled_stage(&decls, c.rng.next_u64()) {
            Err(e) => panic!("compiled stage could not run: {}", e),
            Ok((n_ok, fails)) => {
                c.add("compiled_specs_checked", n_ok);
                c.eval();
                for f in fails.iter().take(5) {
                    let class = if f.contains("does not compile") { "does-not-compile" } else if f.contains("panic while using") { "bad-specification-panic" } else if f.contains("round trip") || f.contains("writer rejected") { "round-trip" } else { "behaviour" };
                    c.violation(format!("C18/compiled/{}", class), f.clone(), J::obj().set("failure", J::s(f.clone())).set("all_failures", J::Arr(fails.iter().take(10).map(|x| J::s(x.clone())).collect())).set("crate", J::s(format!("{}/gen_specs", harness_dir()))));
                }
            }
        }
    }
    // broken declarations the macro accepted must be rejected by rustc; batch them on a few designated cases
    if !needs_rustc.is_empty() && (c.idx < c.tier.pick(38, 190)) {
        // keep crate names unique per case so that parallel cases do not collide
        let dir_suffix = c.idx;
        match reject_compile_one(&needs_rustc[0].1, dir_suffix) {
            Err(e) => panic!("reject stage could not run: {}", e),
            Ok(rejected) => {
                c.count("broken_checked_with_rustc");
                if !rejected {
                    c.violation(
                        format!("C18/broken-accepted/{}", needs_rustc[0].0),
                        format!("a declaration of the broken class '{}' is accepted by the macro and compiles", needs_rustc[0].0),
                        J::obj().set("broken_class", J::s(needs_rustc[0].0.clone())).set("declaration", J::s(needs_rustc[0].1.clone())).set("embedded_in_random_declaration", J::Bool(embedded)),
                    );
                } else {
                    c.count("broken_rejected_by_rustc");
                }
            }
        }
    } else if !needs_rustc.is_empty() {
        // path rules are invisible to rustc (paths only end up in data): when the macro library lets such a
        // declaration through, nothing else can reject it
        let path_only = ["wrong-prefix", "missing-segment", "extra-segment", "placeholder-bounds", "zero-maximum", "adjacent-placeholders"];
        if path_only.iter().any(|p| needs_rustc[0].0.starts_with(p)) {
            c.violation(
                format!("C18/broken-accepted/{}", needs_rustc[0].0),
                format!("a declaration of the broken class '{}' is accepted by the macro (path rules are checked by the macro only; rustc never sees them)", needs_rustc[0].0),
                J::obj().set("broken_class", J::s(needs_rustc[0].0.clone())).set("declaration", J::s(needs_rustc[0].1.clone())).set("embedded_in_random_declaration", J::Bool(embedded)),
            );
        } else {
            c.count("broken_accepted_by_macro_not_compiled_in_this_case");
        }
    }
    let _ = reject_compile_stage;
}

static REJECT_LOCK: std::sync::Mutex<u64> = std::sync::Mutex::new(0);

fn reject_compile_one(src: &str, suffix: u64) -> Result<bool, String> {
    // serialised (cargo locks the shared target directory anyway) and with a package name that is never reused,
    // so that no stale fingerprint can make cargo skip the compilation
    let mut counter = REJECT_LOCK.lock().unwrap_or_else(|e| e.into_inner());
    *counter += 1;
    let unique = format!("gen_reject_{}_{}_{}", std::process::id(), suffix, *counter);
    let dir = format!("{}/gen_reject/{}", harness_dir(), unique);
    let body = format!("#![allow(dead_code, unused_imports)]\nuse ebml_iterable::specs::TagDataType;\n#[ebml_iterable::specs::ebml_specification]\n{}\nfn main() {{}}\n", src);
    write_crate(&dir, &unique, &[("src/main.rs".to_string(), body)])?;
    let (ok, log) = cargo(&dir, &["check", "-q"]);
    let _ = std::fs::remove_dir_all(&dir);
    // remove this package's artifacts again (unique names would otherwise pile up in the target directory)
    for sub in ["debug/.fingerprint", "debug/deps", "debug/incremental"] {
        if let Ok(rd) = std::fs::read_dir(format!("{}/target/gen/{}", harness_dir(), sub)) {
            for e in rd.flatten() {
                if e.file_name().to_string_lossy().contains(&unique) {
                    let _ = std::fs::remove_dir_all(e.path());
                    let _ = std::fs::remove_file(e.path());
                }
            }
        }
    }
    if !ok && !log.contains("error") {
        return Err(format!("cargo failed without a compile error: {}", log.lines().last().unwrap_or("")));
    }
    Ok(!ok)
}

fn minimal_base() -> Decl {
    let v = |n: &str, id: u64, ty: Ty, path: Vec<Seg>| VarDecl { name: n.to_string(), spell: 0, id, ty, path };
    let nm = |s: &str| Seg::Name(s.to_string());
    Decl {
        name: "Mini".into(),
        vars: vec![
            v("Root", 0x1A45DFA3, Ty::Master, vec![]),
            v("Other", 0x18538067, Ty::Master, vec![]),
            v("Mid", 0xA0, Ty::Master, vec![nm("Root")]),
            v("Deep", 0xA1, Ty::Master, vec![nm("Root"), nm("Mid")]),
            v("Deeper", 0xA2, Ty::Master, vec![nm("Root"), nm("Mid"), nm("Deep")]),
            v("Leaf", 0x4101, Ty::U, vec![nm("Root"), nm("Mid"), nm("Deep")]),
            v("Leaf2", 0x4102, Ty::S, vec![nm("Root"), nm("Mid")]),
            v("G", 0x4103, Ty::B, vec![nm("Root"), Seg::Glob(Some(1), Some(2))]),
            v("Wild", 0xA3, Ty::Master, vec![nm("Root"), Seg::Glob(Some(1), Some(3))]),
            v("WLeaf", 0x4104, Ty::U, vec![nm("Root"), Seg::Glob(Some(1), Some(3)), nm("Wild")]),
            v("WSub", 0xA4, Ty::Master, vec![nm("Root"), Seg::Glob(Some(1), Some(3)), nm("Wild")]),
            v("Free", 0xA5, Ty::Master, vec![Seg::Glob(None, None)]),
            v("FLeaf", 0x4105, Ty::S, vec![Seg::Glob(None, None), nm("Free")]),
        ],
    }
}
