//! C07 — unknown-size masters end where EBML says; same tags as the known-size encoding.

use super::common::*;
use crate::gen::{self, TreeBounds};
use crate::io::ScriptedWrite;
use crate::json::{hex_short, J};
use crate::prng::{hash_str, mix, Rng};
use crate::rd::{parse_slice, Ev, MaxSz, RCfg};
use crate::refcodec::{enc_tree, flat, tree_short, Node, RBody, RNode, RSz, SizeOpt};
use crate::runner::{Case, PropDef, Tier};
use crate::spec::{items_json, Spec};
use crate::wr::{calls_from_tree, run_calls};

pub static DEF: PropDef = PropDef {
    id: "C07",
    level: "exploration",
    rule: "each case: a random conformant tree (zoo incl. Z_DEEP chains of 3-7 nested masters, and random specifications) and a family of unknown-size choices U over its masters: ALL 2^m subsets when the tree has m <= 8 eligible masters (thorough; <= 5 quick), random subsets + 'all eligible' + 'deepest chain' otherwise. Each (tree, U) is encoded twice — by the real writer (option or deprecated API) and by the reference encoder with all-ones sizes of a random width 1-8 per master — and read by the real strict iterator (half of the readings through a scripted source with short reads and a small initial capacity); the item sequence (offsets ignored) must equal the flattened tree, i.e. equal the all-known-size reading, with Ends of implicitly closed masters placed before the element that follows. A master is eligible unless it is a global master (may contain itself) or the element that follows it after closing would be a global/raw element (inherently ambiguous, excluded by the statement). distinct = (tree fingerprint, U); non-trivial iff |U| >= 2 with two members nested, or the closing element lies >= 2 levels above the innermost unknown-size master.",
    assumptions: &["reference closing semantics (spec.rs::ref_closes) only enter through the eligibility rule; the oracle itself is the generated tree", "cases the writer rejects are vacuous (counted)"],
    cases_quick: 80_000,
    cases_thorough: 600_000,
    floors: &[("encodings_compared", 30_000), ("distinct_nontrivial", 1000), ("nested_unknown_pairs", 5000), ("closings_two_or_more_levels_up", 1000), ("trees_with_all_subsets", 200)],
    exhaustive_note: Some("all 2^m unknown-size subsets of the eligible masters for trees with m <= 5 (quick) / m <= 8 (thorough)"),
    run,
};

/// paths (index vectors) of all masters in pre-order
fn master_paths(nodes: &[Node]) -> Vec<Vec<usize>> {
    fn go(n: &Node, cur: &mut Vec<usize>, out: &mut Vec<Vec<usize>>) {
        if n.is_master() {
            out.push(cur.clone());
            for (i, c) in n.children.iter().enumerate() {
                cur.push(i);
                go(c, cur, out);
                cur.pop();
            }
        }
    }
    let mut out = Vec::new();
    for (i, n) in nodes.iter().enumerate() {
        let mut cur = vec![i];
        go(n, &mut cur, &mut out);
    }
    out
}

fn node_at<'a>(nodes: &'a mut [Node], p: &[usize]) -> &'a mut Node {
    let mut n = &mut nodes[p[0]];
    for i in &p[1..] {
        n = &mut n.children[*i];
    }
    n
}

fn set_all_default(nodes: &mut [Node]) {
    for n in nodes.iter_mut() {
        n.visit_mut(&mut |x, _| x.opt = SizeOpt::Default, 0);
    }
}

fn to_rnodes_unknown_widths(rng: &mut Rng, nodes: &[Node]) -> Vec<RNode> {
    nodes
        .iter()
        .map(|n| {
            if n.is_master() {
                RNode { id: n.id(), sz: if n.opt == SizeOpt::Unknown { RSz::Unknown(rng.urange(1, 8)) } else { RSz::Min }, body: RBody::Master(to_rnodes_unknown_widths(rng, &n.children)) }
            } else {
                RNode { id: n.id(), sz: RSz::Min, body: RBody::Payload(crate::refcodec::enc_payload_canonical(&n.item)) }
            }
        })
        .collect()
}

/// (nested pairs in U, max levels between an unknown master and the element that closes it)
fn u_stats(nodes: &[Node]) -> (usize, usize) {
    // nested pairs: count masters with Unknown that have an Unknown ancestor
    fn go(n: &Node, unk_anc: usize, nested: &mut usize) {
        if n.is_master() {
            let me = (n.opt == SizeOpt::Unknown) as usize;
            if me == 1 && unk_anc > 0 {
                *nested += 1;
            }
            for c in &n.children {
                go(c, unk_anc + me, nested);
            }
        }
    }
    let mut nested = 0;
    for n in nodes {
        go(n, 0, &mut nested);
    }
    // closing distance: for each unknown master that is the last child (recursively) of k unknown ancestors, distance = k
    fn chain(n: &Node, run: usize, best: &mut usize) {
        if !n.is_master() {
            return;
        }
        let r = if n.opt == SizeOpt::Unknown { run + 1 } else { 0 };
        *best = (*best).max(r);
        let last = n.children.len().saturating_sub(1);
        for (i, c) in n.children.iter().enumerate() {
            chain(c, if i == last { r } else { 0 }, best);
        }
    }
    let mut best = 0;
    for n in nodes {
        chain(n, 0, &mut best);
    }
    (nested, best)
}

fn run(c: &mut Case) {
    let spec: Spec = match c.rng.below(10) {
        0..=2 => gen::z_deep(c.rng.urange(3, 7)),
        3 => gen::z_kitchen(c.rng.chance(1, 2)),
        4 => gen::z_test(),
        // masters with placeholders in their path (nested in themselves, at any depth, at the top level) in a third of the
        // random specifications: they keep their unknown size only where what follows ends them unambiguously (fix_unknown)
        5 | 6 => gen::random_spec(&mut c.rng, &gen::SpecBounds::FULL),
        _ => gen::random_spec(&mut c.rng, &gen::SpecBounds::PLAIN),
    };
    spec.install();
    let tb = TreeBounds { max_elems: c.tier.pick(24, 40), max_depth: 7, big_payloads: false, globals: c.rng.chance(1, 2) };
    let mut tree = gen::gen_tree(&mut c.rng, &spec, &tb);
    set_all_default(&mut tree);
    if tree.is_empty() {
        return;
    }
    // a fifth of the trees carry one or two elements with ids outside the specification (read with unknown ids
    // tolerated): such an element is nobody's sibling or ancestor and must not end an unknown-size master either
    let with_raw = c.rng.chance(1, 5);
    if with_raw {
        let n = c.rng.urange(1, 2);
        gen::add_raw_tags(&mut c.rng, &spec, &mut tree, n);
        c.count("trees_with_raw_elements");
    }
    let expected = flat(&tree);
    let paths = master_paths(&tree);
    if paths.is_empty() {
        c.count("vacuous_no_masters");
        return;
    }
    // eligible masters = those that stay Unknown after fix_unknown when everything is requested Unknown
    let mut all = tree.clone();
    for p in &paths {
        node_at(&mut all, p).opt = SizeOpt::Unknown;
    }
    gen::fix_unknown(&spec, &mut all);
    let eligible: Vec<&Vec<usize>> = paths.iter().filter(|p| node_at(&mut all, p).opt == SizeOpt::Unknown).collect();
    if eligible.is_empty() {
        c.count("vacuous_no_eligible_masters");
        return;
    }
    let lim = c.tier.pick(5usize, 8);
    let m = eligible.len();
    let masks: Vec<u64> = if m <= lim {
        c.count("trees_with_all_subsets");
        (1u64..(1 << m)).collect()
    } else {
        let mut v: Vec<u64> = (0..c.tier.pick(12, 40)).map(|_| c.rng.next_u64() & ((1u64 << m.min(63)) - 1)).filter(|x| *x != 0).collect();
        v.push((1u64 << m.min(63)) - 1);
        v
    };
    let cfg = RCfg { allow: if with_raw { crate::rd::ALLOW_IDS } else { 0 }, buffered: vec![], capacity: None, max_size: MaxSz::Set(Some(1 << 20)), eof_end: true };
    for mask in masks {
        let mut t = tree.clone();
        for (k, p) in eligible.iter().enumerate() {
            if k < 64 && mask & (1 << k) != 0 {
                node_at(&mut t, p).opt = SizeOpt::Unknown;
            }
        }
        // eligibility depends on which ancestors are unknown: re-fix (may demote a few)
        gen::fix_unknown(&spec, &mut t);
        let (nested, dist) = u_stats(&t);
        let n_unknown = gen::tree_stats(&t).1;
        if n_unknown == 0 {
            continue;
        }
        for producer in 0..2 {
            let bytes = if producer == 0 {
                let calls = calls_from_tree(&t, &mut |_| false, c.rng.chance(1, 3));
                let run = run_calls(&calls, ScriptedWrite::new());
                if !run.all_ok() {
                    c.count("vacuous_writer_rejected");
                    continue;
                }
                run.bytes
            } else {
                let rn = to_rnodes_unknown_widths(&mut c.rng, &t);
                enc_tree(&rn).0
            };
            // half of the readings go through a scripted source with short reads / small capacity
            let p = if c.rng.chance(1, 2) {
                parse_slice(&bytes, &cfg)
            } else {
                let src = super::c05::random_source(&mut c.rng, &bytes);
                let mut cfg2 = cfg.clone();
                cfg2.capacity = *c.rng.pick(&[None, Some(0usize), Some(16), Some(64)]);
                c.count("readings_with_short_reads");
                crate::rd::parse_scripted(src, &cfg2).0
            };
            c.eval();
            c.count("encodings_compared");
            let got = p.values();
            let d = first_diff(&expected, &got);
            if d.is_some() || !p.clean() {
                let k = d.unwrap_or(expected.len());
                let kind = match &p.end {
                    Ev::Err(e) if k >= got.len() => format!("error-{}", e.kind()),
                    Ev::Caught(cg) if k >= got.len() => cg.sig(),
                    _ => "items-differ".into(),
                };
                c.violation(
                    format!("C07/{}/{}/nested{}-dist{}", kind, if producer == 0 { "writer" } else { "reference-encoder" }, nested.min(3), dist.min(4)),
                    format!("unknown-size encoding reads differently from the tree at item {}: expected {}, got {} (end {})", k, expected.get(k).map(|i| i.short()).unwrap_or("<end>".into()), got.get(k).map(|i| i.short()).unwrap_or("<none>".into()), p.end.short()),
                    J::obj().set("spec", spec.to_json()).set("tree_with_unknown_size_choices", J::s(tree_short(&t))).set("bytes", J::s(hex_short(&bytes, 500))).set("expected_items", items_json(&expected, 60)).set("read", p.to_json(60)),
                );
                continue;
            }
        }
        if nested > 0 {
            c.add("nested_unknown_pairs", nested as u64);
        }
        if dist >= 2 {
            c.count("closings_two_or_more_levels_up");
        }
        if (n_unknown >= 2 && nested > 0) || dist >= 2 {
            c.nontrivial(mix(gen::tree_fingerprint(&t), hash_str("c07")));
        }
    }
    if c.idx % 401 == 0 && c.tier == Tier::Quick || c.idx % 9001 == 0 {
        c.set_sample(J::obj().set("spec", spec.to_json()).set("tree", J::s(tree_short(&tree))).set("eligible_masters", J::u(m)).set("expected_items", items_json(&expected, 20)));
    }
}
