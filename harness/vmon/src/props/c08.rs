//! C08 — buffered (Full) masters are exactly the flat stream rolled up.

use super::inputs::*;
use crate::json::J;
use crate::prng::{hash_str, mix};
use crate::rd::{parse_slice, Ev, MaxSz, RCfg};
use crate::runner::{Case, PropDef, Tier};
use crate::spec::{flatten, Item};

pub static DEF: PropDef = PropDef {
    id: "C08",
    level: "exploration",
    rule: "each case: one input (valid known/unknown-size documents from the real writer or the hostile reference encoder, truncated at a random byte, 1-3 mutations, adversarial headers, mid-document suffixes; masters repeated as siblings and nested) x a tolerance subset, parsed once without buffering and then with buffered sets: ALL subsets of the master ids that occur in the input when there are <= 6 (thorough) / <= 4 (quick), random subsets (plus 'every master') otherwise. Oracle: replacing every Full by Start, children (recursively), End gives the unbuffered item sequence when the unbuffered parse is clean (and the buffered one must be clean too); when the unbuffered parse ends in an error the flattened buffered items must be a prefix of the unbuffered ones and the buffered parse must end in an error; items outside Full masters must carry the same offsets. distinct = (input kind, buffered-set size class, outcome class, shape hash); non-trivial iff a Full with a nested master was produced or the error fell inside a buffered master.",
    assumptions: &["end-of-stream closing is left enabled (the default): with closing disabled a buffered master that is still open at end of input can never become a Full item, so no behaviour could satisfy the statement"],
    cases_quick: 600_000,
    cases_thorough: 3_000_000,
    floors: &[("buffered_parses_compared", 30_000), ("distinct_nontrivial", 500), ("full_items_seen", 10_000), ("error_inside_buffered_master", 300)],
    exhaustive_note: Some("all subsets of the master ids occurring in the input as the buffered set, for inputs with <= 4 (quick) / <= 6 (thorough) distinct masters"),
    run,
};

fn has_nested_master(it: &Item) -> bool {
    match it {
        Item::Full(_, ch) => ch.iter().any(|c| matches!(c, Item::Full(..))),
        _ => false,
    }
}

fn run(c: &mut Case) {
    let mut m = Mix::ALL;
    m.adversarial = 4;
    m.random = 1;
    m.p_unknown = *c.rng.pick(&[0u64, 15, 35]);
    let inp = gen_input(&mut c.rng, c.tier, &m);
    inp.spec.install();
    let cfg0 = RCfg { allow: *c.rng.pick(&[0u8, 0, 0, 1, 2, 4, 7]), buffered: vec![], capacity: None, max_size: MaxSz::Set(Some(*c.rng.pick(&[4096usize, 1 << 16, 1 << 20]))), eof_end: true };
    let u = parse_slice(&inp.bytes, &cfg0);
    c.eval();
    if matches!(u.end, Ev::Caught(_)) {
        c.count("vacuous_unbuffered_caught");
        return;
    }
    let uvals = u.values();
    // masters that occur
    let mut present: Vec<u64> = Vec::new();
    for it in &uvals {
        if let Item::Start(id) = it {
            if !present.contains(id) {
                present.push(*id);
            }
        }
    }
    if present.is_empty() {
        c.count("vacuous_no_masters");
        return;
    }
    let lim = c.tier.pick(4usize, 6);
    let subsets: Vec<Vec<u64>> = if present.len() <= lim {
        c.count("inputs_with_all_subsets");
        (1u32..(1 << present.len())).map(|mask| present.iter().enumerate().filter(|(i, _)| mask & (1 << i) != 0).map(|(_, x)| *x).collect()).collect()
    } else {
        let n = c.tier.pick(4, 10);
        let mut v: Vec<Vec<u64>> = (0..n).map(|_| present.iter().filter(|_| c.rng.chance(1, 2)).copied().collect::<Vec<u64>>()).filter(|s| !s.is_empty()).collect();
        v.push(present.clone());
        v.push(vec![*c.rng.pick(&present)]);
        v
    };
    for set in subsets {
        let mut cfg = cfg0.clone();
        cfg.buffered = set.clone();
        if c.tier == Tier::Thorough && c.rng.chance(1, 4) {
            cfg.capacity = Some(c.rng.urange(16, 200));
        }
        let b = parse_slice(&inp.bytes, &cfg);
        c.eval();
        c.count("buffered_parses_compared");
        let bvals = b.values();
        let fl = flatten(&bvals);
        let fulls = bvals.iter().filter(|x| matches!(x, Item::Full(..))).count();
        c.add("full_items_seen", fulls as u64);
        let wit = |msg: &str| inp.to_json().set("config", cfg.to_json()).set("unbuffered", u.to_json(60)).set("buffered", b.to_json(60)).set("problem", J::s(msg));
        let setclass = if set.len() == 1 { "one" } else if set.len() == present.len() { "all" } else { "some" };
        let mut error_inside = false;
        if let Ev::Caught(cg) = &b.end {
            c.violation(format!("C08/buffered-{}/{}", cg.sig(), setclass), format!("buffered parse {}", cg.text()), wit("panic/hang in buffered parse"));
            continue;
        }
        if u.clean() {
            if fl != uvals || !b.clean() {
                let k = fl.iter().zip(uvals.iter()).position(|(a, b)| a != b).unwrap_or(fl.len().min(uvals.len()));
                c.violation(
                    format!("C08/clean/{}/{}", if !b.clean() && k >= fl.len() { format!("buffered-ends-{}", match &b.end { Ev::Err(e) => e.kind(), _ => "?" }) } else { "items-differ".to_string() }, setclass),
                    format!("unbuffered parse is clean but flatten(buffered) differs at item {} (buffered end: {})", k, b.end.short()),
                    wit("flatten(buffered) != unbuffered"),
                );
                continue;
            }
        } else {
            // prefix + error
            let is_prefix = fl.len() <= uvals.len() && fl[..] == uvals[..fl.len()];
            if !is_prefix {
                let k = fl.iter().zip(uvals.iter()).position(|(a, b)| a != b).unwrap_or(uvals.len());
                c.violation(format!("C08/error/not-a-prefix/{}", setclass), format!("unbuffered parse ends in {} ; flatten(buffered) is not a prefix of its items (differs at {})", u.end.short(), k), wit("flatten(buffered) is not a prefix of unbuffered"));
                continue;
            }
            if b.clean() {
                c.violation(format!("C08/error/buffered-ends-clean/{}", setclass), format!("unbuffered parse ends in {} but the buffered parse ends cleanly", u.end.short()), wit("buffered parse hides the error"));
                continue;
            }
            // did the error fall inside a buffered master? (some Start of a buffered id among the unbuffered items has no Full counterpart)
            let mut depth_buf = 0i32;
            for it in &uvals[fl.len().min(uvals.len())..] {
                match it {
                    Item::Start(id) if set.contains(id) => depth_buf += 1,
                    _ => {}
                }
            }
            if depth_buf > 0 || fl.len() < uvals.len() {
                error_inside = true;
                c.count("error_inside_buffered_master");
            }
        }
        // offsets of items outside Full masters
        let mut ui = 0usize;
        for (it, off) in &b.items {
            match it {
                Item::Full(..) => {
                    let mut f = Vec::new();
                    it.flatten_into(&mut f);
                    ui += f.len();
                }
                _ => {
                    if let Some((_, uoff)) = u.items.get(ui) {
                        if uoff != off {
                            c.violation(format!("C08/offset-outside-full/{}", setclass), format!("item {} outside any Full reports offset {} with buffering but {} without", it.short(), off, uoff), wit("offset of an unaffected element differs"));
                            break;
                        }
                    }
                    ui += 1;
                }
            }
        }
        if bvals.iter().any(has_nested_master) || error_inside {
            let shape: Vec<u8> = bvals.iter().take(30).map(|i| match i { Item::Full(..) => 3, Item::Start(_) => 1, Item::End(_) => 2, _ => 4 }).collect();
            c.nontrivial(mix(hash_str(&format!("{}|{}|{}", inp.kind.split('/').next().unwrap_or(""), setclass, if u.clean() { "clean" } else { "err" })), crate::prng::hash_bytes(&shape)));
        }
    }
    if c.idx % 1201 == 5 {
        c.set_sample(inp.to_json().set("masters_present", J::Arr(present.iter().map(|i| J::s(format!("{:x}", i))).collect())).set("unbuffered", u.to_json(14)));
    }
}
