//! C06 — strict mode emits only well-nested, hierarchy-valid, size-contained sequences.
//!
//! Oracle: an independent replay checker consumes the Ok items (with their offsets and the header sizes obtained
//! by reference-decoding the input at those offsets) and keeps its own stack.

use super::c05::random_source;
use super::common::*;
use super::inputs::*;
use crate::gen;
use crate::json::J;
use crate::mutate;
use crate::prng::{hash_str, mix, Rng};
use crate::rd::{parse_scripted, Ev, MaxSz, Parse, RCfg};
use crate::refcodec::{dec_id, dec_size, enc_tree, Dec, Node, RSize};
use crate::runner::{Case, PropDef, Tier};
use crate::spec::{ref_closes, ref_path_match, Item, Spec, Ty};

pub static DEF: PropDef = PropDef {
    id: "C06",
    level: "exploration",
    rule: "each case: one input — valid documents mixing known- and unknown-size masters at several depths, the same with one or two known elements of the specification inserted at random (mostly invalid) places before hostile reference encoding, 1-3 byte/structure mutations (subtree copies and size rewrites are the productive ones), truncations, adversarial headers, mid-document suffixes — parsed by the real iterator with NO errors tolerated through a scripted short-read source. The Ok items before the first error are replayed against an independent checker: every End matches the innermost open master (implied ancestors of a mid-document start included, reported at offset 0); no raw tags; once the first non-global element has fixed the position every element's declared path must match the chain of open masters (reference matcher); every element lies inside every enclosing known-size master; a known-size master's End comes exactly when its range is exhausted (earlier only at end of input); an unknown-size master's End must be justified by the next element (sibling / ancestor instance / root, transitively through directly enclosing unknown-size masters; or — for global masters — an element that is not a valid child of the open chain but is valid once the closed masters are removed), by an exhausted known-size ancestor, or by end of input; on a clean end the stack must be empty (every open master got an End, innermost first, never a Start). distinct = (input kind, max depth, unknown-size masters seen, checks exercised); non-trivial iff >= 2 nesting levels were open at some point and >= 1 path check happened under an unknown-size master.",
    assumptions: &["reference path semantics (spec.rs)", "items after the first error are not judged", "the full checker runs on unbuffered parses; a third of the cases additionally parse with a random buffered set and replay the flattened items through a structure-only checker (nesting, ids, declared paths; no extents, because children of a Full carry no offsets)"],
    cases_quick: 1_000_000,
    cases_thorough: 8_000_000,
    floors: &[("path_checks", 100_000), ("path_checks_under_unknown_size_master", 5_000), ("containment_checks", 50_000), ("ends_checked", 50_000), ("unknown_size_closings_justified", 2_000), ("mid_document_starts", 500), ("distinct_nontrivial", 500)],
    exhaustive_note: None,
    run,
};

struct Open {
    id: u64,
    end: Option<usize>, // known-size: first byte after the master
    implied: bool,
}

struct Verdict {
    sig: String,
    msg: String,
    at: usize,
}

/// Replay checker. Returns the first violation found, if any.
fn check(c: &mut Case, spec: &Spec, bytes: &[u8], p: &Parse) -> Option<Verdict> {
    let mut stack: Vec<Open> = Vec::new();
    let mut fixed = false;
    let mut cursor: usize = p.items.first().map(|x| x.1).unwrap_or(0);
    let n = p.items.len();
    let clean = p.end == Ev::None;
    let mut max_depth = 0;
    let mut i = 0;
    while i < n {
        let (item, off) = &p.items[i];
        let off = *off;
        match item {
            Item::End(id) => {
                c.count("ends_checked");
                let top = match stack.last() {
                    Some(t) => t,
                    None => return Some(Verdict { sig: "end-without-open-master".into(), msg: format!("End({:x}) with no master open", id), at: i }),
                };
                if top.id != *id {
                    return Some(Verdict { sig: format!("end-mismatch/{}", if top.implied { "implied-top" } else { "real-top" }), msg: format!("End({:x}) but the innermost open master is {:x}", id, top.id), at: i });
                }
                if top.implied && off != 0 {
                    return Some(Verdict { sig: "implied-ancestor-end-offset".into(), msg: format!("End({:x}) of an implied ancestor reports offset {}", id, off), at: i });
                }
                // what follows this run of Ends?
                let mut j = i;
                while j < n && p.items[j].0.is_end() {
                    j += 1;
                }
                let next = p.items.get(j);
                let at_eof = next.is_none();
                match top.end {
                    Some(e) => {
                        // known size: End exactly when the range is exhausted; earlier only if the input ended
                        if cursor < e && !(at_eof && clean) {
                            return Some(Verdict { sig: "known-size-end-too-early".into(), msg: format!("End({:x}) emitted at position {} but the master's range ends at {}", id, cursor, e), at: i });
                        }
                    }
                    None if !top.implied => {
                        // unknown size: justified by exhausted known ancestor closed in the same run, by the next element, or by EOF
                        let run_len = j - i;
                        let depth = stack.len();
                        // masters closed in this run: stack[depth-run_len..]
                        let closed_from = depth.saturating_sub(run_len);
                        let known_ancestor_closed = stack[closed_from..depth - 1].iter().any(|o| o.end.is_some());
                        // don't-care: an unknown-size master that may contain itself through a global placeholder (its own
                        // path has a placeholder) — whether a following instance is a child or a sibling is inherently ambiguous
                        let ambiguous_global = spec.get(top.id).map(|e| e.is_global()).unwrap_or(false);
                        if ambiguous_global {
                            c.count("dont_care_unknown_size_global_master_closings");
                        }
                        let justified = if ambiguous_global || known_ancestor_closed || (at_eof && clean) || (at_eof && !clean) {
                            true
                        } else if let Some((nx, _)) = next {
                            // the next element must close this master or an unknown-size master directly enclosing it (within the run)
                            let mut ok = false;
                            let mut k = depth - 1;
                            loop {
                                if stack[k].end.is_some() {
                                    break;
                                }
                                if ref_closes(spec, stack[k].id, nx.id()) {
                                    ok = true;
                                    break;
                                }
                                if k == closed_from || k == 0 {
                                    break;
                                }
                                k -= 1;
                            }
                            // liberal alternative (global masters that cannot nest any deeper): the next element is not a
                            // valid child of the chain with this master still open, but is valid once the run is closed
                            if !ok {
                                if let Some(xe) = spec.get(nx.id()) {
                                    let full: Vec<u64> = stack.iter().map(|o| o.id).collect();
                                    if !ref_path_match(&xe.path, &full) && ref_path_match(&xe.path, &full[..closed_from]) {
                                        ok = true;
                                        c.count("unknown_size_closings_justified_by_invalid_child_rule");
                                    }
                                }
                            }
                            ok
                        } else {
                            true
                        };
                        if !justified {
                            return Some(Verdict { sig: "unknown-size-end-unjustified".into(), msg: format!("End({:x}) of an unknown-size master is followed by {} which does not close it", id, next.map(|x| x.0.short()).unwrap_or_default()), at: i });
                        }
                        c.count("unknown_size_closings_justified");
                    }
                    None => {}
                }
                stack.pop();
                i += 1;
                continue;
            }
            Item::Full(..) => return None, // not expected (unbuffered)
            _ => {}
        }
        // ---- non-End item
        if item.is_raw() {
            return Some(Verdict { sig: "raw-tag-in-strict-mode".into(), msg: format!("raw tag {} emitted with no errors tolerated", item.short()), at: i });
        }
        let e = match spec.get(item.id()) {
            Some(e) => e,
            None => return Some(Verdict { sig: "unknown-id-in-strict-mode".into(), msg: format!("item {} has an id outside the specification", item.short()), at: i }),
        };
        // a known-size master whose range is exhausted must have been closed already
        if let Some(o) = stack.iter().find(|o| matches!(o.end, Some(e) if e <= off)) {
            return Some(Verdict { sig: "known-size-end-missing".into(), msg: format!("{} at {} although master {:x} ended at {}", item.short(), off, o.id, o.end.unwrap()), at: i });
        }
        // header
        let (_, il) = match dec_id(&bytes[off.min(bytes.len())..]) {
            Dec::Ok(v, l) => (v, l),
            _ => return None, // C03's subject
        };
        let (sz, sl) = match dec_size(&bytes[(off + il).min(bytes.len())..]) {
            Dec::Ok(v, l) => (v, l),
            _ => return None,
        };
        let hdr = il + sl;
        let extent_end = match sz {
            RSize::Known(v) => off + hdr + v as usize,
            RSize::Unknown => off + hdr,
        };
        // containment
        for o in stack.iter() {
            if let Some(e_end) = o.end {
                c.count("containment_checks");
                if extent_end > e_end {
                    return Some(Verdict { sig: format!("not-contained/{}", if matches!(sz, RSize::Unknown) { "unknown-size-child" } else { "known-size-child" }), msg: format!("{} spans [{}, {}) but enclosing master {:x} ends at {}", item.short(), off, extent_end, o.id, e_end), at: i });
                }
            }
        }
        // position / path
        if !fixed && !e.is_global() {
            // implied ancestors = declared path minus the masters already open (if the path ends with them)
            let path_ids: Vec<u64> = e.path.iter().map(|p| match p { crate::spec::PP::Id(i) => *i, _ => 0 }).collect();
            let open_ids: Vec<u64> = stack.iter().map(|o| o.id).collect();
            let implied: Vec<u64> = if path_ids.ends_with(&open_ids) { path_ids[..path_ids.len() - open_ids.len()].to_vec() } else { path_ids.clone() };
            if !implied.is_empty() {
                c.count("mid_document_starts");
            }
            let mut ns: Vec<Open> = implied.iter().map(|id| Open { id: *id, end: None, implied: true }).collect();
            ns.append(&mut stack);
            stack = ns;
            fixed = true;
        }
        if fixed {
            let chain: Vec<u64> = stack.iter().map(|o| o.id).collect();
            c.count("path_checks");
            if stack.iter().any(|o| o.end.is_none() && !o.implied) {
                c.count("path_checks_under_unknown_size_master");
            }
            if !ref_path_match(&e.path, &chain) {
                let under_unknown = stack.iter().any(|o| o.end.is_none() && !o.implied);
                return Some(Verdict {
                    sig: format!("path-mismatch/{}/{}", if e.is_root() { "root-element" } else if e.is_global() { "global-element" } else { "element" }, if under_unknown { "under-unknown-size" } else { "known-sizes" }),
                    msg: format!("{} (declared path {}) emitted under open masters {:x?}", item.short(), spec.path_str(e), chain),
                    at: i,
                });
            }
        }
        if e.ty == Ty::Master {
            if !item.is_start() {
                return None;
            }
            stack.push(Open { id: e.id, end: match sz { RSize::Known(v) => Some(off + hdr + v as usize), RSize::Unknown => None }, implied: false });
            cursor = off + hdr;
        } else {
            cursor = extent_end;
        }
        max_depth = max_depth.max(stack.len());
        i += 1;
    }
    if clean && !stack.is_empty() {
        let o = stack.last().unwrap();
        return Some(Verdict { sig: format!("open-master-at-clean-end/{}", if o.implied { "implied" } else if o.end.is_some() { "known-size" } else { "unknown-size" }), msg: format!("the parse ended cleanly but master {:x} never received its End ({} masters left open)", o.id, stack.len()), at: n });
    }
    c.max("depth_seen", max_depth as u64);
    None
}

/// Structure-only replay (no offsets): used on the flattened output of *buffered* strict parses, whose children carry
/// no offsets. Nesting, ids and declared paths must still be right.
fn check_structure(spec: &Spec, items: &[Item], clean: bool) -> Option<(String, String, usize)> {
    let mut stack: Vec<u64> = Vec::new();
    let mut fixed = false;
    for (i, item) in items.iter().enumerate() {
        match item {
            Item::End(id) => match stack.last() {
                Some(top) if top == id => {
                    stack.pop();
                }
                Some(top) => return Some(("end-mismatch".into(), format!("End({:x}) but the innermost open master is {:x}", id, top), i)),
                None => return Some(("end-without-open-master".into(), format!("End({:x}) with no master open", id), i)),
            },
            Item::Full(..) => return None,
            other => {
                if other.is_raw() {
                    return Some(("raw-tag-in-strict-mode".into(), format!("raw tag {}", other.short()), i));
                }
                let e = match spec.get(other.id()) {
                    Some(e) => e,
                    None => return Some(("unknown-id-in-strict-mode".into(), other.short(), i)),
                };
                if !fixed && !e.is_global() {
                    let path_ids: Vec<u64> = e.path.iter().map(|p| match p { crate::spec::PP::Id(i) => *i, _ => 0 }).collect();
                    let implied: Vec<u64> = if path_ids.ends_with(&stack) { path_ids[..path_ids.len() - stack.len()].to_vec() } else { path_ids.clone() };
                    let mut ns = implied;
                    ns.append(&mut stack);
                    stack = ns;
                    fixed = true;
                }
                if fixed && !ref_path_match(&e.path, &stack) {
                    return Some(("path-mismatch".into(), format!("{} (declared path {}) under open masters {:x?}", other.short(), spec.path_str(e), stack), i));
                }
                if e.ty == Ty::Master {
                    stack.push(e.id);
                }
            }
        }
    }
    if clean && !stack.is_empty() {
        return Some(("open-master-at-clean-end".into(), format!("{} masters never received their End", stack.len()), items.len()));
    }
    None
}

/// Insert 1-2 random known elements of the spec at random places of the tree (usually invalid there).
fn insert_misplaced(rng: &mut Rng, spec: &Spec, nodes: &mut Vec<Node>) {
    let n = rng.urange(1, 2);
    for _ in 0..n {
        let e = rng.pick(&spec.elems);
        let node = if e.ty == Ty::Master { Node::master(e.id, vec![]) } else { Node::leaf(gen::gen_value(rng, e.id, e.ty, false)) };
        let mut target: &mut Vec<Node> = nodes;
        loop {
            let masters: Vec<usize> = target.iter().enumerate().filter(|(_, x)| x.is_master()).map(|(i, _)| i).collect();
            if masters.is_empty() || rng.chance(1, 4) {
                break;
            }
            let i = *rng.pick(&masters);
            target = &mut target[i].children;
        }
        let pos = rng.urange(0, target.len());
        target.insert(pos, node);
    }
}

fn run(c: &mut Case) {
    let kind_sel = c.rng.below(10);
    let inp: Input = if kind_sel < 3 {
        // valid tree + misplaced insertions, hostile reference encoding, unknown sizes frequent
        let o = DocOpts { p_width: 8, p_unknown: 40, raw: false, shaping: false, full_specs: c.rng.chance(1, 3) };
        let mut doc = gen_doc(&mut c.rng, c.tier, &o);
        insert_misplaced(&mut c.rng, &doc.spec, &mut doc.tree);
        let rn = mutate::hostile_rnodes(&mut c.rng, &doc.tree, false);
        let (bytes, lay) = enc_tree(&rn);
        Input { spec: doc.spec, tree: doc.tree, bytes, lay, kind: "misplaced-insert".into(), valid: false, mutations: vec![] }
    } else {
        let mut m = Mix::ALL;
        m.p_unknown = *c.rng.pick(&[15u64, 40, 60]);
        m.random = 1;
        m.middoc = 15;
        gen_input(&mut c.rng, c.tier, &m)
    };
    inp.spec.install();
    let cfg = RCfg { allow: 0, buffered: vec![], capacity: *c.rng.pick(&[None, None, Some(16), Some(64)]), max_size: MaxSz::Set(Some(1 << 20)), eof_end: true };
    let src = if c.tier == Tier::Thorough || c.rng.chance(1, 2) { random_source(&mut c.rng, &inp.bytes) } else { crate::io::ScriptedRead::new(inp.bytes.clone()) };
    // a fifth of the parses run the way a live-stream consumer would: end-of-stream closing off, the source pausing
    // (Ok(0)) at some element boundaries, closing switched on once the source is exhausted for good
    let live = !inp.lay.is_empty() && c.rng.chance(1, 5);
    let (p, _s, _) = if live {
        let mut stops: Vec<usize> = inp.lay.iter().flat_map(|l| [l.off, if l.is_master { l.data_start } else { l.end }]).filter(|x| *x > 0 && *x < inp.bytes.len() && c.rng.chance(1, 3)).collect();
        stops.sort();
        stops.dedup();
        c.count("live_stream_parses");
        crate::rd::parse_scripted_fin(src.with_stops(stops), &RCfg { eof_end: false, ..cfg.clone() }, true)
    } else {
        parse_scripted(src, &cfg)
    };
    c.eval();
    if let Ev::Caught(_) = p.end {
        c.count("vacuous_caught");
        return;
    }
    c.add("items_replayed", p.items.len() as u64);
    let before_unknown = *c.counters.get("path_checks_under_unknown_size_master").unwrap_or(&0);
    if let Some(v) = check(c, &inp.spec, &inp.bytes, &p) {
        if live && v.sig.starts_with("open-master-at-clean-end") {
            // the live-stream parse switches end-of-stream closing on after the final None; what a reader makes of a setter
            // called at that point is not pinned by any statement (it may stay fused, as C05's wording suggests), so
            // masters left open at the end of such a parse are not judged — everything emitted is
            c.count("vacuous_live_stream_left_masters_open");
            return;
        }
        c.violation(
            format!("C06/{}/{}", v.sig, inp.kind.split('/').next().unwrap_or("")),
            v.msg.clone(),
            inp.to_json().set("config", cfg.to_json()).set("parse", p.to_json(80)).set("violating_item_index", J::u(v.at)).set("problem", J::s(v.msg)),
        );
        return;
    }
    // the same input with a random set of buffered masters: flattened Full items must still be well nested and path-valid
    if c.rng.chance(1, 3) {
        let masters = inp.spec.masters();
        let buffered: Vec<u64> = match c.rng.below(3) {
            0 => vec![*c.rng.pick(&masters)],
            1 => masters.iter().filter(|_| c.rng.chance(1, 2)).copied().collect(),
            _ => masters.clone(),
        };
        let bcfg = RCfg { buffered, capacity: None, ..cfg.clone() };
        let bp = crate::rd::parse_slice(&inp.bytes, &bcfg);
        c.eval();
        if !matches!(bp.end, Ev::Caught(_)) {
            c.count("buffered_parses_replayed");
            let flat = crate::spec::flatten(&bp.values());
            if let Some((sig, msg, at)) = check_structure(&inp.spec, &flat, bp.clean()) {
                c.violation(
                    format!("C06/buffered/{}/{}", sig, inp.kind.split('/').next().unwrap_or("")),
                    msg.clone(),
                    inp.to_json().set("config", bcfg.to_json()).set("parse", bp.to_json(80)).set("violating_flattened_item_index", J::u(at)).set("problem", J::s(msg)),
                );
                return;
            }
        }
    }
    let after_unknown = *c.counters.get("path_checks_under_unknown_size_master").unwrap_or(&0);
    let depth = *c.counters.get("max_depth_seen").unwrap_or(&0);
    if depth >= 2 && after_unknown > before_unknown {
        let shape: Vec<u8> = p.items.iter().take(40).map(|(i, _)| match i { Item::Start(_) => 1, Item::End(_) => 2, _ => 4 }).collect();
        c.nontrivial(mix(hash_str(inp.kind.split('/').next().unwrap_or("")), crate::prng::hash_bytes(&shape)));
    }
    if c.idx % 3001 == 13 {
        c.set_sample(inp.to_json().set("parse", p.to_json(16)));
    }
}
