//! C03 — every emitted tag mirrors the bytes at its reported offset; tags tile the stream.

use super::c05::{random_cfg, random_source};
use super::inputs::*;
use crate::json::J;
use crate::prng::{hash_str, mix};
use crate::rd::{parse_scripted, parse_slice, RCfg};
use crate::refcodec::{dec_id, dec_payload, dec_size, Dec, RSize};
use crate::runner::{Case, PropDef};
use crate::spec::{Item, PP};

pub static DEF: PropDef = PropDef {
    id: "C03",
    level: "exploration",
    rule: "each case: one input (valid / truncated / mutated / adversarial / random / mid-document) x random configuration (8 tolerance subsets, buffered subsets, capacities that force buffer compaction, size limits) x scripted short-read source (a fifth of the unmutated cases with end-of-stream closing disabled and temporary EOFs at random tag boundaries). Every Ok item before the first error is checked against the input bytes with the independent reference decoder: the id decoded at the reported offset equals the item's id; the value equals the documented decoding of the payload that follows the header (big-endian unsigned, sign-extended signed, IEEE-754 4/8-byte float, UTF-8, raw bytes for ids outside the specification); the next non-End item starts exactly at header end (masters) or payload end (other elements); an End reports the offset of its matching Start (0 for implied ancestors of a mid-document start); a buffered Full reports the master's start offset, its flattened children are checked against an unbuffered parse of the same bytes, and tiling resumes after the master. Case 0 of every run: a generated stream longer than 2^32 bytes (a known-size Segment > Cluster with about 4100 Blocks of 1 MiB, then elements behind them; nothing is held in memory) — every item's id, offset (beyond 2^32), payload and the Ends of the > 4 GiB masters are compared with the arithmetic layout. distinct = (input kind, config class, structural shape hash); non-trivial iff >= 3 items were checked and the source needed >= 2 reads (buffer offset moved).",
    assumptions: &["reference decoders in refcodec.rs", "items after the first error are not judged", "when the buffered and unbuffered parses disagree structurally (C08's subject) the Full-offset clause is skipped for that case (counted)"],
    cases_quick: 1_000_000,
    cases_thorough: 10_000_000,
    floors: &[("items_checked", 100_000), ("distinct_nontrivial", 2000), ("full_items_checked", 300), ("end_items_checked", 10_000), ("implied_ancestor_ends_checked", 20)],
    exhaustive_note: None,
    run,
};

fn cfg_class(cfg: &RCfg) -> String {
    format!("a{}b{}c{}", cfg.allow, cfg.buffered.len().min(2), match cfg.capacity { None => "d".to_string(), Some(c) if c < 64 => "<64".into(), Some(_) => ">=64".into() })
}

fn run(c: &mut Case) {
    if c.idx == 0 {
        super::huge::run_huge_read(c);
        return;
    }
    let inp = gen_input(&mut c.rng, c.tier, &Mix::ALL);
    inp.spec.install();
    let mut cfg = random_cfg(&mut c.rng, &inp);
    if c.rng.chance(1, 3) {
        cfg.capacity = Some(c.rng.urange(16, 80));
    }
    let bytes = &inp.bytes;
    let mut src = random_source(&mut c.rng, bytes);
    // a fifth of the cases: end-of-stream closing disabled and temporary EOFs at random tag boundaries (the source
    // pauses, the caller keeps calling next()): offsets must keep counting from the start of the stream
    if !inp.lay.is_empty() && inp.mutations.is_empty() && c.rng.chance(1, 5) {
        cfg.eof_end = false;
        let mut stops: Vec<usize> = Vec::new();
        for l in &inp.lay {
            for p in [l.off, l.end] {
                if p > 0 && p < bytes.len() && c.rng.chance(1, 4) {
                    stops.push(p);
                }
            }
        }
        if !stops.is_empty() {
            // pauses inside a buffered master are the known limitation of C04; keep them outside
            let lay = &inp.lay;
            let buffered = cfg.buffered.clone();
            stops.retain(|p| !lay.iter().any(|l| l.is_master && buffered.contains(&l.id) && *p >= l.data_start && *p <= l.end));
            c.count("cases_with_pauses");
            src = src.with_stops(stops);
        }
    }
    let (p, src_after, _) = parse_scripted(src, &cfg);
    c.eval();
    let wit = |msg: &str, idx: usize| inp.to_json().set("config", cfg.to_json()).set("parse", p.to_json(60)).set("failing_item_index", J::u(idx)).set("problem", J::s(msg));
    let ctx = format!("{}{}", inp.kind.split('/').next().unwrap_or(""), if cfg.buffered.is_empty() { "" } else { "/buffered" });
    // unbuffered companion for Full items
    let flat_p = if cfg.buffered.is_empty() { None } else { Some(parse_slice(bytes, &RCfg { buffered: vec![], capacity: None, ..cfg.clone() })) };
    let mut flat_idx = 0usize; // index into flat_p.items aligned with the current item

    // own stack of open masters: (id, start offset)
    let mut stack: Vec<(u64, usize)> = Vec::new();
    let mut expected_next: Option<usize> = None;
    let mut first_non_global_seen = false;
    let mut checked = 0u64;
    for (k, (item, off)) in p.items.iter().enumerate() {
        let off = *off;
        match item {
            Item::End(id) => {
                c.count("end_items_checked");
                match stack.iter().rposition(|(sid, _)| sid == id) {
                    Some(pos) => {
                        // must be the innermost for well-nestedness (C06); here only the offset clause
                        let (_, so) = stack[pos];
                        if off != so {
                            c.violation(format!("C03/end-offset/{}", ctx), format!("End({:x}) reports offset {} but its Start was at {}", id, off, so), wit("End offset != Start offset", k));
                            return;
                        }
                        if so == 0 && pos < stack.len() && stack[pos].1 == 0 && p.items.first().map(|f| f.1) == Some(0) && k > 0 && p.items[..k].iter().all(|(it, _)| !(it.is_start() && it.id() == *id)) {
                            c.count("implied_ancestor_ends_checked");
                        }
                        stack.truncate(pos);
                    }
                    None => {
                        // implied ancestor of a mid-document start: offset must be 0
                        c.count("implied_ancestor_ends_checked");
                        if off != 0 {
                            c.violation(format!("C03/implied-ancestor-end-offset/{}", ctx), format!("End({:x}) of an implied ancestor reports offset {} (expected 0)", id, off), wit("implied ancestor End offset != 0", k));
                            return;
                        }
                    }
                }
                if flat_p.is_some() {
                    flat_idx += 1;
                }
                continue;
            }
            _ => {}
        }
        // non-End item: tiling
        if let Some(en) = expected_next {
            if off != en {
                c.violation(format!("C03/tiling/{}/{}", ctx, if off > en { "gap" } else { "overlap" }), format!("item {} ({}) starts at {} but the previous element ended at {}", k, item.short(), off, en), wit("next item does not start where the previous one ends", k));
                return;
            }
        }
        // header at the reported offset
        let (id, il) = match dec_id(&bytes[off.min(bytes.len())..]) {
            Dec::Ok(v, l) => (v, l),
            // don't-care: a 0x00 byte where an id should start is not an id at all; with unknown ids tolerated the
            // iterator reports it as raw tag 0 of one byte. The property does not say what "the id found" is there.
            Dec::Invalid if *item == Item::Raw(0, match item { Item::Raw(_, d) => d.clone(), _ => vec![] }) => {
                c.count("dont_care_zero_id_byte");
                (0, 1)
            }
            other => {
                c.violation(format!("C03/id-at-offset/{}/undecodable", ctx), format!("item {} ({}) reports offset {} where no id can be decoded ({:?})", k, item.short(), off, other), wit("no id at reported offset", k));
                return;
            }
        };
        if id != item.id() {
            let kind = if matches!(item, Item::Full(..)) { "full" } else if item.is_start() { "start" } else { "leaf" };
            c.violation(format!("C03/id-at-offset/{}/{}", ctx, kind), format!("item {} ({}) reports offset {} but the id found there is {:x}", k, item.short(), off, id), wit("id at reported offset differs", k));
            return;
        }
        let (sz, sl) = match dec_size(&bytes[off + il..]) {
            Dec::Ok(v, l) => (v, l),
            other => {
                c.violation(format!("C03/size-at-offset/{}", ctx), format!("item {} ({}) at {}: size not decodable ({:?})", k, item.short(), off, other), wit("size undecodable", k));
                return;
            }
        };
        let hdr = il + sl;
        checked += 1;
        c.count("items_checked");
        match item {
            Item::Start(id) => {
                stack.push((*id, off));
                expected_next = Some(off + hdr);
                if flat_p.is_some() {
                    flat_idx += 1;
                }
            }
            Item::Full(id, children) => {
                c.count("full_items_checked");
                // flattened children against the unbuffered parse
                let fp = flat_p.as_ref().unwrap();
                let mut fl = Vec::new();
                item.flatten_into(&mut fl);
                let aligned = fp.items.len() >= flat_idx + fl.len() && fp.items[flat_idx..flat_idx + fl.len()].iter().map(|x| &x.0).eq(fl.iter());
                if !aligned {
                    c.count("full_alignment_skipped");
                    return; // C08's subject
                }
                let start_off = fp.items[flat_idx].1;
                if off != start_off {
                    c.violation(format!("C03/full-offset/{}", ctx), format!("Full({:x}) reports offset {} but the unbuffered parse reports its Start at {}", id, off, start_off), wit("Full offset != master start", k));
                    return;
                }
                // where does the master end? known size: header says; unknown: where the next flat item starts
                expected_next = match sz {
                    RSize::Known(n) => Some(off + hdr + n as usize),
                    RSize::Unknown => fp.items.get(flat_idx + fl.len()).filter(|x| !x.0.is_end()).map(|x| x.1),
                };
                // with tolerated oversize a child may overrun; then tiling cannot be predicted from the header
                if cfg.allow & crate::rd::ALLOW_OVERSIZE != 0 {
                    expected_next = fp.items[flat_idx + fl.len()..].iter().find(|x| !x.0.is_end()).map(|x| x.1);
                }
                flat_idx += fl.len();
                let _ = children;
            }
            leaf => {
                let n = match sz {
                    RSize::Known(n) => n as usize,
                    RSize::Unknown => {
                        c.violation(format!("C03/leaf-unknown-size/{}", ctx), format!("leaf item {} emitted for an element with unknown size at {}", leaf.short(), off), wit("leaf with unknown size", k));
                        return;
                    }
                };
                if off + hdr + n > bytes.len() {
                    c.violation(format!("C03/leaf-beyond-input/{}", ctx), format!("item {} at {} claims {} payload bytes beyond the input", leaf.short(), off, n), wit("payload beyond input", k));
                    return;
                }
                let payload = &bytes[off + hdr..off + hdr + n];
                let ty = if leaf.is_raw() { None } else { inp.spec.ty(id) };
                let want = dec_payload(id, ty, payload);
                if want.as_ref() != Some(leaf) {
                    let t = match leaf {
                        Item::U(..) => "uint",
                        Item::I(..) => "sint",
                        Item::F(..) => "float",
                        Item::S(..) => "utf8",
                        Item::B(..) => "binary",
                        _ => "raw",
                    };
                    c.violation(format!("C03/value/{}/len{}", t, n.min(9)), format!("item {} at {} but the payload bytes decode to {:?}", leaf.short(), off, want.map(|w| w.short())), wit("value != documented decoding of the payload", k));
                    return;
                }
                if leaf.is_raw() && inp.spec.get(id).is_some() {
                    c.violation(format!("C03/raw-for-known-id/{}", ctx), format!("raw tag emitted for id {:x} which is in the specification", id), wit("raw for known id", k));
                    return;
                }
                expected_next = Some(off + hdr + n);
                if flat_p.is_some() {
                    flat_idx += 1;
                }
            }
        }
        if !first_non_global_seen {
            first_non_global_seen = inp.spec.get(id).map(|e| !e.path.iter().any(|p| matches!(p, PP::Glob(..)))).unwrap_or(false);
        }
    }
    let reads_with_data = src_after.log.iter().filter(|(_, r)| *r > 0).count();
    if checked >= 3 && reads_with_data >= 2 {
        let shape: Vec<u8> = p.items.iter().take(40).map(|(i, _)| match i { Item::Start(_) => 1, Item::End(_) => 2, Item::Full(..) => 3, _ => 4 }).collect();
        c.nontrivial(mix(hash_str(&format!("{}|{}", inp.kind.split('/').next().unwrap_or(""), cfg_class(&cfg))), crate::prng::hash_bytes(&shape)));
    }
    c.add("source_reads_with_data", reads_with_data as u64);
    if c.idx % 1777 == 9 {
        c.set_sample(inp.to_json().set("config", cfg.to_json()).set("parse", p.to_json(14)).set("items_checked_against_bytes", J::u(checked)));
    }
}
