//! C11 — hierarchy validation equals declared path semantics, in reader and writer alike.

use crate::gen::{self, SpecBounds};
use crate::io::ScriptedWrite;
use crate::json::{hex_short, J};
use crate::prng::{hash_str, mix};
use crate::rd::{parse_slice, ErrRec, Ev, MaxSz, RCfg};
use crate::refcodec::{enc_tree, RBody, RNode, RSz, SizeOpt};
use crate::runner::{Case, PropDef};
use crate::spec::{ref_closes, ref_path_match, Elem, Item, Spec, Ty, PP};
use crate::wr::{do_call, WCall, WErr, WRes};
use ebml_iterable::TagWriter;

pub static DEF: PropDef = PropDef {
    id: "C11",
    level: "exploration",
    rule: "each case: one specification (zoo or random forest of masters with leaves at any depth, trailing and intermediate global placeholders with random bounds) and a random sample of valid chains of open masters (built by depth-first extension under the reference path matcher, depth <= 5 quick / 7 thorough, each chain master known- or unknown-size). For every chain and EVERY element of the specification: writer side — a fresh real TagWriter is driven through the chain's Starts (must all be accepted) and the element is written (masters as Start and as an empty Full item, each also with the unknown-size option): Ok <=> reference match of the declared path against the chain, rejection must be UnexpectedTag carrying the element id; reader side — the same (chain, element) pair is rendered by the reference encoder (after a preceding complete root element so that the position is fixed) and read by the real strict iterator: the element must be emitted iff the reference accepts it against the chain that remains after closing the unknown-size masters it ends, otherwise HierarchyError carrying its id; mid-document variant: the tail chain[j..] (all unknown-size, nothing in front) followed by an element with a fully named path that ends all of it (root element, sibling or declared ancestor of chain[j]) — the element must be emitted. distinct = (path-shape class of the element: ids-only / trailing global / intermediate global, bound class, chain depth, verdict, side); non-trivial iff the chain is non-empty.",
    assumptions: &["reference path semantics = spec.rs::ref_path_match / ref_closes (pattern match with backtracking; globals never close)", "reader-side pairs where the element both closes an unknown-size master and would be a valid child of the full chain are ambiguous and skipped (counted)", "a chain master with a placeholder in its path gets unknown size only if no master further down the chain would end it (same declared path or declared ancestor)"],
    cases_quick: 15_000,
    cases_thorough: 200_000,
    floors: &[("writer_pairs", 20_000), ("reader_pairs", 20_000), ("distinct_nontrivial", 40), ("writer_accept", 1000), ("writer_reject", 1000), ("reader_accept", 1000), ("reader_reject", 1000), ("shape_intermediate-global_accept", 20), ("shape_intermediate-global_reject", 20), ("shape_trailing-global_accept", 20), ("shape_trailing-global_reject", 20)],
    exhaustive_note: Some("for each sampled chain, every element of the specification is tried (writer and reader side)"),
    run,
};

fn shape(e: &Elem) -> &'static str {
    let n = e.path.len();
    match e.path.iter().position(|p| matches!(p, PP::Glob(..))) {
        None => "ids-only",
        Some(i) if i + 1 == n => "trailing-global",
        Some(_) => "intermediate-global",
    }
}

fn bound_class(e: &Elem) -> String {
    e.path
        .iter()
        .filter_map(|p| match p {
            PP::Glob(a, b) => Some(format!("{}-{}", a.map(|x| x.min(3).to_string()).unwrap_or("n".into()), b.map(|x| x.min(4).to_string()).unwrap_or("n".into()))),
            _ => None,
        })
        .collect::<Vec<_>>()
        .join(",")
}

fn sample_item(e: &Elem) -> Item {
    match e.ty {
        Ty::Master => Item::Start(e.id),
        Ty::U => Item::U(e.id, 7),
        Ty::I => Item::I(e.id, -7),
        Ty::F => Item::F(e.id, 1.5f64.to_bits()),
        Ty::S => Item::S(e.id, "x".into()),
        Ty::B => Item::B(e.id, vec![1, 2, 3]),
    }
}

fn sample_payload(e: &Elem) -> Vec<u8> {
    match e.ty {
        Ty::Master => vec![],
        Ty::U => vec![7],
        Ty::I => vec![0xF9],
        Ty::F => 1.5f64.to_be_bytes().to_vec(),
        Ty::S => b"x".to_vec(),
        Ty::B => vec![1, 2, 3],
    }
}

/// `next` has the same declared path as the open master (a "sibling", e.g. the master nested in itself) or is named in
/// its declared path (an "ancestor") — whether or not `next` has a placeholder in its own path.
fn looks_like_closer(spec: &Spec, open_id: u64, next_id: u64) -> bool {
    match (spec.get(open_id), spec.get(next_id)) {
        (Some(open), Some(next)) => open.path == next.path || open.path.iter().any(|p| matches!(p, PP::Id(x) if *x == next.id)),
        _ => false,
    }
}

fn run(c: &mut Case) {
    let spec: Spec = match c.rng.below(8) {
        0 => gen::z_kitchen(true),
        1 => gen::z_test(),
        2 => gen::z_deep(c.rng.urange(3, 6)),
        3 | 4 => gen::random_spec(&mut c.rng, &SpecBounds::PLAIN),
        _ => gen::random_spec(&mut c.rng, &SpecBounds::FULL),
    };
    spec.install();
    let max_depth = c.tier.pick(5usize, 7);
    // sample valid chains by random depth-first extension
    let n_chains = c.tier.pick(14usize, 24);
    let mut chains: Vec<Vec<u64>> = vec![vec![]];
    for _ in 0..n_chains {
        let mut chain: Vec<u64> = Vec::new();
        let target = c.rng.urange(1, max_depth);
        while chain.len() < target {
            let ext: Vec<u64> = spec.elems.iter().filter(|e| e.ty == Ty::Master && ref_path_match(&e.path, &chain)).map(|e| e.id).collect();
            if ext.is_empty() {
                break;
            }
            chain.push(*c.rng.pick(&ext));
        }
        if !chain.is_empty() && !chains.contains(&chain) {
            chains.push(chain);
        }
    }
    for chain in &chains {
        // known/unknown choice per chain master
        // unknown size on a third of the chain masters — also on masters with a placeholder in their path, unless a master
        // further down the chain would itself end it (same declared path, e.g. a master nested in itself, or a declared
        // ancestor): then the rendered chain would not be the chain the reader sees
        let mut unk: Vec<bool> = chain.iter().map(|_| c.rng.chance(1, 3)).collect();
        for i in 0..chain.len() {
            if unk[i] && spec.get(chain[i]).unwrap().is_global() && chain[i + 1..].iter().any(|later| looks_like_closer(&spec, chain[i], *later)) {
                unk[i] = false;
            }
        }
        let chain_desc = || J::Arr(chain.iter().zip(unk.iter()).map(|(id, u)| J::s(format!("{}{}", spec.get(*id).unwrap().name, if *u { "(unknown-size)" } else { "" }))).collect());
        for e in &spec.elems {
            let expect = ref_path_match(&e.path, chain);
            // ---------------- writer side
            // presentations: element / master Start with default size, master Start with unknown size, and the master as
            // an (empty) Full item with default and with unknown size
            for (unknown_variant, full_variant) in [(false, false), (true, false), (false, true), (true, true)] {
                if (unknown_variant || full_variant) && e.ty != Ty::Master {
                    continue;
                }
                let mut w = TagWriter::new(ScriptedWrite::new());
                let mut chain_ok = true;
                for (k, id) in chain.iter().enumerate() {
                    let r = do_call(&mut w, &WCall::Write(Item::Start(*id), if unk[k] { SizeOpt::Unknown } else { SizeOpt::Default }));
                    if !r.is_ok() {
                        chain_ok = false;
                        let pe = spec.get(*id).unwrap();
                        c.violation(
                            format!("C11/writer/chain-master-rejected/{}/{}", shape(pe), r.kind()),
                            format!("writer rejected Start({}) under the valid chain prefix of length {}: {}", pe.name, k, r.short()),
                            J::obj().set("spec", spec.to_json()).set("chain", chain_desc()).set("rejected_index", J::u(k)),
                        );
                        break;
                    }
                }
                if !chain_ok {
                    break;
                }
                let item = if full_variant { Item::Full(e.id, vec![]) } else { sample_item(e) };
                let call = WCall::Write(item, if unknown_variant { SizeOpt::Unknown } else { SizeOpt::Default });
                let r = do_call(&mut w, &call);
                c.eval();
                c.count("writer_pairs");
                let wit = || J::obj().set("side", J::s("writer")).set("spec", spec.to_json()).set("chain", chain_desc()).set("element", J::s(spec.path_str(e))).set("call", J::s(call.short())).set("reference_verdict", J::Bool(expect)).set("writer_result", J::s(r.short()));
                let sigtail = format!("{}/{}{}", shape(e), if e.ty == Ty::Master { "master" } else { "leaf" }, if unknown_variant && full_variant { "-full-unknown-size" } else if unknown_variant { "-unknown-size" } else if full_variant { "-full" } else { "" });
                match (&r, expect) {
                    (WRes::Ok, true) => c.count("writer_accept"),
                    (WRes::Err(WErr::UnexpectedTag { id, .. }), false) if *id == e.id => c.count("writer_reject"),
                    (WRes::Ok, false) => c.violation(format!("C11/writer/accepts-invalid/{}/chain-{}", sigtail, if unk.iter().any(|u| *u) { "with-unknown" } else { "known" }), format!("writer accepted {} under chain {:x?} although its declared path does not match", spec.path_str(e), chain), wit()),
                    (WRes::Err(WErr::UnexpectedTag { .. }), true) => c.violation(format!("C11/writer/rejects-valid/{}", sigtail), format!("writer rejected {} under chain {:x?} although its declared path matches", spec.path_str(e), chain), wit()),
                    (other, _) => c.violation(format!("C11/writer/wrong-result/{}/{}", sigtail, other.kind()), format!("unexpected result {}", other.short()), wit()),
                }
                c.count(&format!("shape_{}_{}", shape(e), if expect { "accept" } else { "reject" }));
                if !chain.is_empty() {
                    c.nontrivial(mix(hash_str(&format!("w{}{}{}{}", shape(e), bound_class(e), chain.len(), expect)), unknown_variant as u64));
                }
            }
            // ---------------- reader side, stream that starts in the middle of a document (a seeked reader)
            // The stream is the tail chain[j..] (all unknown-size) and then `e`. Only the clear-cut pairs are judged: `e` has a
            // fully named path and ends everything rendered (it is a root element, or has the declared path of chain[j], or
            // is named in it). Whatever ancestors the reader infers, an element that closes the open unknown-size masters is
            // judged against what remains — only inferred ancestors, which `e` itself determines — so it must be emitted.
            if chain.len() >= 2 && !e.is_global() {
                let j = c.rng.urange(1, chain.len() - 1);
                let tail = &chain[j..];
                let internal = (0..tail.len()).any(|i| tail[i + 1..].iter().any(|later| looks_like_closer(&spec, tail[i], *later)));
                if !internal && (e.is_root() || looks_like_closer(&spec, chain[j], e.id)) {
                    let mut node = RNode { id: e.id, sz: RSz::Min, body: if e.ty == Ty::Master { RBody::Master(vec![]) } else { RBody::Payload(sample_payload(e)) } };
                    // e is a *sibling* of the rendered tail, not its child: [tail (nested, unknown-size), e]
                    let mut tail_node: Option<RNode> = None;
                    for id in tail.iter().rev() {
                        tail_node = Some(RNode { id: *id, sz: RSz::Unknown(c.rng.urange(1, 8)), body: RBody::Master(tail_node.take().into_iter().collect()) });
                    }
                    let nodes = vec![tail_node.unwrap(), std::mem::replace(&mut node, RNode { id: 0, sz: RSz::Min, body: RBody::Master(vec![]) })];
                    let (bytes, _lay) = enc_tree(&nodes);
                    let cfg = RCfg { allow: 0, buffered: vec![], capacity: None, max_size: MaxSz::Set(Some(1 << 20)), eof_end: true };
                    let p = parse_slice(&bytes, &cfg);
                    c.eval();
                    c.count("reader_middoc_pairs");
                    let starts_ok = p.items.len() >= tail.len() && p.items[..tail.len()].iter().zip(tail.iter()).all(|((it, _), id)| it.is_start() && it.id() == *id);
                    let emitted = p.items.iter().skip(tail.len()).any(|(it, _)| it.id() == e.id && !it.is_end());
                    if !starts_ok {
                        // whether a reader accepts a stream that does not start at a root element at all is not C11's
                        // subject (C06 speaks about it): nothing to judge
                        c.count("vacuous_middoc_start_not_accepted");
                    } else if !emitted {
                        c.violation(
                            format!("C11/reader/mid-document/closer-rejected/{}/{}", if e.is_root() { "root" } else if spec.get(chain[j]).map(|x| x.path == e.path).unwrap_or(false) { "sibling" } else { "ancestor" }, match &p.end { Ev::Err(er) => er.kind(), _ => "none" }),
                            format!("stream starting mid-document with unknown-size masters {:x?} followed by {} (which ends them all): the element was not emitted; parse ended with {}", tail, spec.path_str(e), p.end.short()),
                            J::obj().set("side", J::s("reader, mid-document")).set("spec", spec.to_json()).set("rendered_tail_of_chain", J::Arr(tail.iter().map(|i| J::s(spec.get(*i).unwrap().name.clone())).collect())).set("element", J::s(spec.path_str(e))).set("bytes", J::s(hex_short(&bytes, 300))).set("read", p.to_json(40)),
                        );
                    }
                }
            }
            // ---------------- reader side
            // remaining chain after closing the run of unknown-size masters at the top that `e` ends
            let mut remaining = chain.len();
            for i in (0..chain.len()).rev() {
                if !unk[i] {
                    break;
                }
                if ref_closes(&spec, chain[i], e.id) {
                    remaining = i;
                }
            }
            if remaining < chain.len() && expect {
                c.count("reader_ambiguous_skipped");
                continue;
            }
            // an element with a placeholder in its own path directly after an open unknown-size master that it could end
            // as a "sibling" (same declared path) or "ancestor" is the inherently ambiguous case: child or closer?
            if e.is_global() {
                let mut amb = false;
                for i in (0..chain.len()).rev() {
                    if !unk[i] {
                        break;
                    }
                    if looks_like_closer(&spec, chain[i], e.id) {
                        amb = true;
                    }
                }
                if amb {
                    c.count("reader_ambiguous_skipped");
                    continue;
                }
            }
            let expect_r = ref_path_match(&e.path, &chain[..remaining]);
            // render: a complete root leaf/master first (fixes the position), then the chain with e inside
            let root0 = match spec.elems.iter().find(|x| x.is_root() && !x.is_global()) {
                Some(r) => r,
                None => continue,
            };
            let lead = RNode { id: root0.id, sz: RSz::Min, body: if root0.ty == Ty::Master { RBody::Master(vec![]) } else { RBody::Payload(sample_payload(root0)) } };
            let mut node = RNode { id: e.id, sz: RSz::Min, body: if e.ty == Ty::Master { RBody::Master(vec![]) } else { RBody::Payload(sample_payload(e)) } };
            for (k, id) in chain.iter().enumerate().rev() {
                node = RNode { id: *id, sz: if unk[k] { RSz::Unknown(c.rng.urange(1, 8)) } else { RSz::Min }, body: RBody::Master(vec![node]) };
            }
            let (bytes, _lay) = enc_tree(&[lead, node]);
            let cfg = RCfg { allow: 0, buffered: vec![], capacity: None, max_size: MaxSz::Set(Some(1 << 20)), eof_end: true };
            let p = parse_slice(&bytes, &cfg);
            c.eval();
            c.count("reader_pairs");
            // where does the element show up?
            let lead_items = if root0.ty == Ty::Master { 2 } else { 1 };
            if p.items.len() < lead_items + chain.len() {
                // the reader already failed on the (valid) chain itself
                let k = p.items.len().saturating_sub(lead_items).min(chain.len() - 1);
                let pe = spec.get(chain[k]).unwrap();
                c.violation(
                    format!("C11/reader/chain-master-rejected/{}/{}", shape(pe), match &p.end { Ev::Err(er) => er.kind(), _ => "none" }),
                    format!("strict reader failed on master {} of the valid chain {:x?}: {}", pe.name, chain, p.end.short()),
                    J::obj().set("side", J::s("reader")).set("spec", spec.to_json()).set("chain", chain_desc()).set("bytes", J::s(hex_short(&bytes, 300))).set("read", p.to_json(40)),
                );
                break;
            }
            let idx_e = lead_items + chain.len() + (chain.len() - remaining);
            let emitted = p.items.get(idx_e).map(|(it, _)| it.id() == e.id && !it.is_end()).unwrap_or(false) && p.items[lead_items..lead_items + chain.len()].iter().zip(chain.iter()).all(|((it, _), id)| it.is_start() && it.id() == *id);
            let wit = || J::obj().set("side", J::s("reader")).set("spec", spec.to_json()).set("chain", chain_desc()).set("element", J::s(spec.path_str(e))).set("masters_closed_by_element", J::u(chain.len() - remaining)).set("reference_verdict", J::Bool(expect_r)).set("bytes", J::s(hex_short(&bytes, 300))).set("read", p.to_json(40));
            let sigtail = format!("{}/{}/{}", shape(e), if e.ty == Ty::Master { "master" } else { "leaf" }, if remaining < chain.len() { "closing" } else if unk.iter().any(|u| *u) { "under-unknown" } else { "known" });
            if expect_r {
                if emitted {
                    c.count("reader_accept");
                } else {
                    c.violation(format!("C11/reader/rejects-valid/{}", sigtail), format!("strict reader did not emit {} under chain {:x?} (remaining {}) although its path matches: end {}", spec.path_str(e), chain, remaining, p.end.short()), wit());
                }
            } else {
                let hier = matches!(&p.end, Ev::Err(ErrRec::Hierarchy { found, .. }) if *found == e.id);
                let n_before = p.items.len();
                if hier && n_before <= idx_e {
                    c.count("reader_reject");
                } else if emitted {
                    c.violation(format!("C11/reader/accepts-invalid/{}", sigtail), format!("strict reader emitted {} under chain {:x?} (remaining {}) although its declared path does not match", spec.path_str(e), chain, remaining), wit());
                } else {
                    c.violation(format!("C11/reader/wrong-rejection/{}/{}", sigtail, match &p.end { Ev::Err(er) => er.kind(), _ => "none" }), format!("expected HierarchyError carrying {:x}, got {}", e.id, p.end.short()), wit());
                }
            }
            if !chain.is_empty() {
                c.nontrivial(mix(hash_str(&format!("r{}{}{}{}", shape(e), bound_class(e), chain.len(), expect_r)), (chain.len() - remaining) as u64));
            }
        }
    }
    c.add("chains", chains.len() as u64);
    if c.idx % 97 == 0 {
        c.set_sample(J::obj().set("spec", spec.to_json()).set("chains_sampled", J::Arr(chains.iter().take(6).map(|ch| J::Arr(ch.iter().map(|i| J::s(spec.get(*i).unwrap().name.clone())).collect())).collect())).set("elements_tried_per_chain", J::u(spec.elems.len())));
    }
}
