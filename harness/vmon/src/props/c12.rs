//! C12 — truncated input yields the complete prefix, then an accurate end-of-file error.

use super::inputs::*;
use crate::io::{ScriptedRead, POISONS};
use crate::json::J;
use crate::prng::{hash_str, mix};
use crate::rd::{parse_scripted, ErrRec, Ev, MaxSz, RCfg};
use crate::refcodec::Lay;
use crate::runner::{Case, PropDef, Tier};
use crate::spec::Item;

pub static DEF: PropDef = PropDef {
    id: "C12",
    level: "fault_enumeration",
    rule: "each case: one valid document (real writer or hostile reference encoder; known, unknown and mixed sizes; ids and size fields of 1-8 bytes) and EVERY cut position 0..=len (for documents up to 400 bytes; 64 random cuts plus all header-internal cuts of 40 random elements for larger ones) x capacity {default, 0, 1, 15, 16, 17, 64} x read schedule {whole, 1 byte, random} x poison pattern (one random combination per cut). Expected behaviour is computed arithmetically from the layout of the whole document, not by parsing the prefix: items = all elements whose header (masters) or whole extent (other elements) lies inside the prefix, with Ends of masters that close inside the prefix; then, if the cut is on a tag boundary, the Ends of all open masters innermost first and None; otherwise UnexpectedEOF with tag_start = offset of the incomplete tag, tag_id present iff the id bytes are complete (and equal), tag_size present iff the header is complete (and equal), partial_data = exactly the available payload bytes (None or empty when none), and never a CorruptedFileData error. distinct = (cut class: boundary / inside id / inside size / inside payload) x (element kind, id length, size length) x capacity; non-trivial = not a boundary cut, or a boundary cut with >= 2 masters open.",
    assumptions: &["layout (refcodec::layout_guided / enc_tree) of the valid document is correct", "a cut after a complete header of an empty element (size 0) counts as a boundary: the element is complete", "for unknown-size masters the implicit close is only known when the following element's header is complete; a cut inside the header of an element that would close unknown-size masters expects the EOF error without those Ends (the Ends of still-open masters are not emitted after an error)"],
    cases_quick: 30_000,
    cases_thorough: 400_000,
    floors: &[("cuts_checked", 60_000), ("cut_inside-id", 2000), ("cut_inside-size", 2000), ("cut_inside-payload", 5000), ("cut_boundary", 5000), ("distinct_nontrivial", 150)],
    exhaustive_note: Some("every cut position 0..=len of each generated document of <= 400 bytes"),
    run,
};

/// Expected outcome for the prefix of length `cut`: mandatory items, optional trailing Ends (don't-care: Ends of
/// unknown-size masters that only the incomplete element would close), the end, the cut class, and an index/info.
fn expected(inp: &Input, cut: usize) -> (Vec<Item>, Vec<Item>, Result<(), ErrRec>, &'static str, usize) {
    let lay = &inp.lay;
    let bytes = &inp.bytes;
    let mut items: Vec<Item> = Vec::new();
    let mut open: Vec<usize> = Vec::new(); // indices into lay
    for (i, l) in lay.iter().enumerate() {
        if l.off >= cut {
            break; // boundary cut (or beyond): handled below
        }
        // ancestors of l that are open
        let mut chain = Vec::new();
        let mut p = l.parent;
        while let Some(pi) = p {
            chain.push(pi);
            p = lay[pi].parent;
        }
        chain.reverse();
        let mut keep = 0;
        for (k, pi) in chain.iter().enumerate() {
            if open.get(k) == Some(pi) {
                keep = k + 1;
            } else {
                break;
            }
        }
        // masters open[keep..] end before l. Those from the outermost known-size one upwards close by exhaustion of
        // that master's byte range (no look-ahead needed); unknown-size ones below it close only through l itself.
        let j = (keep..open.len()).find(|x| lay[open[*x]].size.is_some()).unwrap_or(open.len());
        let mandatory_ends: Vec<Item> = open[j..].iter().rev().map(|x| Item::End(lay[*x].id)).collect();
        let optional_ends: Vec<Item> = open[keep..j].iter().rev().map(|x| Item::End(lay[*x].id)).collect();
        if l.data_start > cut {
            // cut inside this element's header
            items.extend(mandatory_ends);
            let id_complete = l.off + l.id_len <= cut;
            let class = if !id_complete { "inside-id" } else { "inside-size" };
            return (items, optional_ends, Err(ErrRec::Eof { start: l.off, id: if id_complete { Some(l.id) } else { None }, size: None, partial: None }), class, i);
        }
        if !l.is_master && l.end > cut {
            items.extend(mandatory_ends);
            let avail = bytes[l.data_start..cut].to_vec();
            return (items, optional_ends, Err(ErrRec::Eof { start: l.off, id: Some(l.id), size: l.size.map(|s| s as usize), partial: Some(avail) }), "inside-payload", i);
        }
        items.extend(mandatory_ends);
        items.extend(optional_ends);
        open.truncate(keep);
        if l.is_master {
            items.push(Item::Start(l.id));
            open.push(i);
        } else {
            items.push(crate::refcodec::lay_value(&inp.spec, bytes, l).expect("valid document"));
        }
    }
    // boundary: EOF closes everything, innermost first
    let n_open = open.len();
    while let Some(i) = open.pop() {
        items.push(Item::End(lay[i].id));
    }
    (items, vec![], Ok(()), "boundary", n_open)
}

fn kind_of(l: &Lay) -> String {
    format!("{}-id{}-sz{}{}", if l.is_master { "master" } else { "leaf" }, l.id_len, l.size_len, if l.size.is_none() { "-unknown" } else { "" })
}

fn run(c: &mut Case) {
    let mut m = Mix::MOSTLY_VALID;
    m.small = c.rng.chance(2, 3);
    m.p_unknown = *c.rng.pick(&[0u64, 15, 40]);
    let inp = gen_valid(&mut c.rng, c.tier, &m);
    inp.spec.install();
    if inp.lay.is_empty() || inp.bytes.is_empty() {
        return;
    }
    let len = inp.bytes.len();
    if len > 40_000 {
        return;
    }
    let cuts: Vec<usize> = if len <= 400 || (c.tier == Tier::Thorough && len <= 1500) {
        (0..=len).collect()
    } else {
        let mut v: Vec<usize> = (0..64).map(|_| c.rng.urange(0, len)).collect();
        for _ in 0..40 {
            let l = c.rng.pick(&inp.lay);
            for p in l.off..=l.data_start.min(len) {
                v.push(p);
            }
        }
        v.sort();
        v.dedup();
        v
    };
    for cut in cuts {
        let (exp_items, opt_ends, exp_end, class, info) = expected(&inp, cut);
        let cap = *c.rng.pick(&[None, None, Some(16usize), Some(64), Some(0), Some(1), Some(15), Some(17)]);
        // the declared sizes are honest here, so the limit may be anything that admits them: untouched, removed, generous
        let max_size = *c.rng.pick(&[MaxSz::Default, MaxSz::Default, MaxSz::Set(None), MaxSz::Set(Some(1 << 26))]);
        let cfg = RCfg { allow: 0, buffered: vec![], capacity: cap, max_size, eof_end: true };
        let mut src = ScriptedRead::new(inp.bytes[..cut].to_vec()).with_poison(*c.rng.pick(&POISONS));
        let scale = 1 + cut / 300;
        match c.rng.below(3) {
            0 => {}
            1 => src = src.with_chunks(vec![], scale),
            _ => {
                let n = c.rng.urange(1, 30);
                let ch: Vec<usize> = (0..n).map(|_| c.rng.urange(1, 9)).collect();
                src = src.with_chunks(ch, (c.rng.urange(1, 40)) * scale);
            }
        }
        let (p, _s, _) = parse_scripted(src.clone(), &cfg);
        c.eval();
        c.count("cuts_checked");
        c.count(&format!("cut_{}", class));
        let got_items = p.values();
        let wit = |msg: &str| {
            inp.to_json()
                .set("cut_at", J::u(cut))
                .set("cut_class", J::s(class))
                .set("config", cfg.to_json())
                .set("read_schedule", J::s(format!("chunks {:?} tail {}", &src.chunks[..src.chunks.len().min(12)], if src.tail == usize::MAX { "all".to_string() } else { src.tail.to_string() })))
                .set("expected_items", crate::spec::items_json(&exp_items, 60))
                .set("expected_end", J::s(match &exp_end { Ok(()) => "None (clean)".to_string(), Err(e) => e.short() }))
                .set("got", p.to_json(60))
                .set("problem", J::s(msg))
        };
        let elem_kind = if class == "boundary" { format!("open{}", info.min(4)) } else { kind_of(&inp.lay[info]) };
        let with_opt: Vec<Item> = exp_items.iter().cloned().chain(opt_ends.iter().cloned()).collect();
        if !opt_ends.is_empty() {
            c.count("cuts_with_dont_care_unknown_size_ends");
        }
        if got_items != exp_items && got_items != with_opt {
            let k = got_items.iter().zip(exp_items.iter()).position(|(a, b)| a != b).unwrap_or(got_items.len().min(exp_items.len()));
            c.violation(
                format!("C12/items/{}/{}/{}", class, elem_kind, if got_items.len() < exp_items.len() && k == got_items.len() { "missing" } else if got_items.len() > exp_items.len() && k == exp_items.len() { "extra" } else { "different" }),
                format!("cut at {}: item {} is {} but expected {}", cut, k, got_items.get(k).map(|i| i.short()).unwrap_or("<none>".into()), exp_items.get(k).map(|i| i.short()).unwrap_or("<none>".into())),
                wit("item sequence before the end differs"),
            );
            continue;
        }
        match (&exp_end, &p.end) {
            (Ok(()), Ev::None) => {}
            (Err(ErrRec::Eof { start, id, size, partial }), Ev::Err(ErrRec::Eof { start: gs, id: gi, size: gz, partial: gp })) => {
                let partial_ok = match (partial, gp) {
                    (None, None) => true,
                    (None, Some(g)) => g.is_empty(),
                    (Some(e), None) => e.is_empty(),
                    (Some(e), Some(g)) => e == g,
                };
                let mut bad = Vec::new();
                if start != gs {
                    bad.push("tag_start");
                }
                if id != gi {
                    bad.push("tag_id");
                }
                if size != gz {
                    bad.push("tag_size");
                }
                if !partial_ok {
                    bad.push("partial_data");
                }
                if !bad.is_empty() {
                    c.violation(format!("C12/eof-fields/{}/{}/{}", class, elem_kind, bad.join("+")), format!("cut at {}: UnexpectedEOF fields {} wrong: got {}", cut, bad.join(","), p.end.short()), wit("EOF error fields"));
                }
            }
            (_, Ev::Err(e)) if e.is_corruption() => {
                c.violation(format!("C12/corruption-reported/{}/{}/{}", class, elem_kind, e.kind()), format!("cut at {}: a merely truncated file was reported as corrupted: {}", cut, e.short()), wit("corruption reported for a truncated file"));
            }
            (_, got) => {
                c.violation(format!("C12/end/{}/{}/{}", class, elem_kind, match got { Ev::None => "clean".to_string(), Ev::Err(e) => e.kind().to_string(), Ev::Caught(cg) => cg.sig(), _ => "item".into() }), format!("cut at {}: expected {} but the parse ended with {}", cut, match &exp_end { Ok(()) => "clean end".to_string(), Err(e) => e.short() }, got.short()), wit("wrong end"));
            }
        }
        if class != "boundary" || info >= 2 {
            c.nontrivial(mix(hash_str(class), mix(hash_str(&elem_kind), cap.map(|x| x as u64).unwrap_or(0))));
        }
    }
    if c.idx % 211 == 3 {
        let cut = len / 2;
        let (ei, _oe, ee, class, _) = expected(&inp, cut);
        c.set_sample(inp.to_json().set("example_cut", J::u(cut)).set("cut_class", J::s(class)).set("expected_items", crate::spec::items_json(&ei, 20)).set("expected_end", J::s(match ee { Ok(()) => "clean".to_string(), Err(e) => e.short() })));
    }
}
