//! C02 — reading, re-writing and reading again is a fixpoint.

use super::common::*;
use crate::io::ScriptedWrite;
use crate::json::{hex_short, J};
use crate::mutate;
use crate::prng::{hash_bytes, mix};
use crate::rd::{parse_slice, Ev, MaxSz, RCfg};
use crate::refcodec::{enc_tree, flat, layout_guided, SizeOpt};
use crate::runner::{Case, PropDef};
use crate::spec::items_json;
use crate::wr::{calls_json, run_calls, WCall, WRes};

pub static DEF: PropDef = PropDef {
    id: "C02",
    level: "exploration",
    rule: "each case: a byte stream from one of three producers — (a) the real writer on a random conformant tree with mixed options, (b) the reference encoder with hostile-but-valid choices (size widths 1-8, unknown-size masters of every all-ones width closed by sibling/ancestor/root/exhausted parent/EOF, zero-padded and 0-length integers, 4-byte floats), (c) 1-3 random mutations (bit flips, inserts, deletes, size-field rewrites, id swaps, subtree copies) of (a)/(b). If the real strict iterator (a quarter of the cases: with a random subset of the masters buffered, so that Full items are emitted and written back) reads it cleanly from a root element (pass 1), every item is written back through the real writer (all calls must succeed) and the output is read again (pass 2); pass-2 values must equal pass-1 values. For unmutated reference encodings pass 1 must also equal the semantic tree. Cases 0-5 (thorough; the two 2^28-1 cases also in the quick tier): giant boundary cases — reference-encoded documents whose Binary payload / master content is exactly 2^28-2, 2^28-1, 2^28 bytes, carried in a 5-, 6- or 8-byte size field; read, re-written with default widths (the re-written size field must decode to the same known size) and read again. distinct = hash of the input bytes; non-trivial iff the rewritten bytes differ from the input (something non-canonical was normalised) or an unknown-size master was present.",
    assumptions: &["streams that pass 1 rejects or that do not begin at a root element are vacuous (counted)", "the size limit is set to 16 MiB for pass 1 so that mutated size fields cannot request huge allocations"],
    cases_quick: 300_000,
    cases_thorough: 3_000_000,
    floors: &[("fixpoints_compared", 2500), ("distinct_nontrivial", 400), ("pass1_accepted_mutants", 50)],
    exhaustive_note: None,
    run,
};

fn run(c: &mut Case) {
    if c.tier == crate::runner::Tier::Thorough && c.idx < super::giant::GIANT_CASES {
        super::giant::run_giant(c, "C02", c.idx);
        return;
    }
    if c.tier == crate::runner::Tier::Quick && c.idx < 2 {
        // quick tier: only the two cases that sit exactly on the boundary (leaf payload / master content of 2^28-1 bytes)
        super::giant::run_giant(c, "C02", [1u64, 4][c.idx as usize]);
        return;
    }
    let kind = c.rng.below(10);
    let mut o = DocOpts::MIXED;
    o.raw = false;
    o.full_specs = c.rng.chance(1, 5);
    let doc = gen_doc(&mut c.rng, c.tier, &o);
    doc.spec.install();
    if doc.tree.is_empty() {
        return;
    }
    let has_unknown = crate::gen::tree_stats(&doc.tree).1 > 0;
    // producer
    let (mut bytes, producer, lay) = if kind < 3 {
        let (_calls, run) = write_doc(&mut c.rng, &doc.tree, ScriptedWrite::new());
        if !run.all_ok() {
            c.count("vacuous_writer_rejected_tree");
            return;
        }
        let lay = layout_guided(&run.bytes, &doc.tree).unwrap_or_default();
        (run.bytes, "writer", lay)
    } else {
        let mut rn = mutate::hostile_rnodes(&mut c.rng, &doc.tree, true);
        if c.rng.chance(1, 3) {
            mutate::widen_sizes(&mut c.rng, &mut rn, 30);
        }
        let (b, lay) = enc_tree(&rn);
        (b, "reference-noncanonical", lay)
    };
    let mutated = kind >= 7;
    let mut mkinds = vec![];
    if mutated {
        let n = c.rng.urange(1, 3);
        let (b, k) = mutate::mutate(&mut c.rng, &doc.spec, &bytes, &lay, n);
        bytes = b;
        mkinds = k;
    }
    // a quarter of the streams are read with some masters buffered: the emitted tags then contain Full items, which
    // are written back as such (and read back the same way)
    let buffered: Vec<u64> = if c.rng.chance(1, 4) { doc.spec.masters().into_iter().filter(|_| c.rng.chance(1, 2)).collect() } else { vec![] };
    let cfg = RCfg { allow: 0, buffered, capacity: None, max_size: MaxSz::Set(Some(1 << 24)), eof_end: true };
    let p1 = parse_slice(&bytes, &cfg);
    c.eval();
    if let Ev::Caught(cg) = &p1.end {
        // totality is C05's subject; record here too because it blocks the fixpoint
        c.violation(format!("C02/pass1-{}", cg.sig()), format!("pass 1 {}", cg.text()), J::obj().set("spec", doc.spec.to_json()).set("bytes", J::s(hex_short(&bytes, 400))));
        return;
    }
    if !p1.clean() {
        c.count(&format!("vacuous_pass1_{}", match &p1.end { Ev::Err(e) => e.kind(), _ => "other" }));
        return;
    }
    let v1 = p1.values();
    if v1.is_empty() {
        c.count("vacuous_empty");
        return;
    }
    if !doc.spec.get(v1[0].id()).map(|e| e.is_root()).unwrap_or(false) {
        c.count("vacuous_not_from_root");
        return;
    }
    if mutated {
        c.count("pass1_accepted_mutants");
    }
    let wit = |extra: J| J::obj().set("spec", doc.spec.to_json()).set("producer", J::s(producer)).set("mutations", J::Arr(mkinds.iter().map(|k| J::s(*k)).collect())).set("input_bytes", J::s(hex_short(&bytes, 600))).set("pass1", p1.to_json(60)).set("detail", extra);
    let sigctx = format!("{}{}", producer, if mutated { "+mutated" } else { "" });
    // meaning check for unmutated reference encodings
    if !mutated {
        let expected = flat(&doc.tree);
        let v1f = crate::spec::flatten(&v1);
        if let Some(k) = first_diff(&expected, &v1f) {
            let classes = flat_classes(&doc.tree);
            c.violation(
                format!("C02/pass1-meaning/{}/{}", producer, classes.get(k).cloned().unwrap_or("end".into())),
                format!("pass 1 item {} is {} but the encoded tree says {}", k, v1f.get(k).map(|i| i.short()).unwrap_or("<none>".into()), expected.get(k).map(|i| i.short()).unwrap_or("<end>".into())),
                wit(J::obj().set("expected", items_json(&expected, 60))),
            );
            return;
        }
    }
    // re-write
    let calls: Vec<WCall> = v1.iter().map(|i| WCall::Write(i.clone(), SizeOpt::Default)).collect();
    let run = run_calls(&calls, ScriptedWrite::new());
    if let Some((i, r)) = run.first_fail() {
        let what = match r {
            WRes::Caught(cg) => cg.sig(),
            other => other.kind(),
        };
        c.violation(
            format!("C02/rewrite-rejected/{}/{}/{}", what, sigctx, item_class(Some(&v1[i]))),
            format!("writer rejected item {} of pass 1 ({}): {}", i, v1[i].short(), r.short()),
            wit(J::obj().set("calls", calls_json(&calls, 60)).set("failing_call", J::u(i))),
        );
        return;
    }
    if !run.fin.is_ok() {
        c.violation(format!("C02/rewrite-finish/{}/{}", run.fin.kind(), sigctx), format!("into_inner failed: {}", run.fin.short()), wit(J::Null));
        return;
    }
    let p2 = parse_slice(&run.bytes, &cfg);
    c.count("fixpoints_compared");
    c.add("items_compared", v1.len() as u64);
    let v2 = p2.values();
    let d = first_diff(&v1, &v2);
    if d.is_some() || !p2.clean() {
        let k = d.unwrap_or(v1.len());
        let kind = match &p2.end {
            Ev::Err(e) if k >= v2.len() => format!("error-{}", e.kind()),
            Ev::Caught(cg) if k >= v2.len() => cg.sig(),
            _ => "item-differs".into(),
        };
        c.violation(
            format!("C02/pass2/{}/{}/{}", kind, sigctx, item_class(v1.get(k))),
            format!("pass 2 diverges at item {}: pass1 {} vs pass2 {} (end {})", k, v1.get(k).map(|i| i.short()).unwrap_or("<end>".into()), v2.get(k).map(|i| i.short()).unwrap_or("<none>".into()), p2.end.short()),
            wit(J::obj().set("rewritten_bytes", J::s(hex_short(&run.bytes, 600))).set("pass2", p2.to_json(60))),
        );
        return;
    }
    if run.bytes != bytes || has_unknown {
        c.nontrivial(mix(hash_bytes(&bytes), 2));
        if run.bytes != bytes {
            c.count("normalised_by_rewrite");
        }
    }
    if has_unknown {
        c.count("streams_with_unknown_size_masters");
    }
    if v1.iter().any(|i| matches!(i, crate::spec::Item::Full(..))) {
        c.count("streams_with_full_items");
    }
    c.count(&format!("producer_{}", sigctx));
    if c.idx % 1499 == 3 {
        c.set_sample(wit(J::obj().set("rewritten_bytes", J::s(hex_short(&run.bytes, 200)))));
    }
}
