//! Helpers shared by several monitors: document generation, writing through the real writer,
//! first-divergence description for signatures.

use crate::gen::{self, SpecBounds, TreeBounds};
use crate::io::ScriptedWrite;
use crate::json::{hex_short, J};
use crate::prng::Rng;
use crate::refcodec::{enc_payload_canonical, tree_short, Node, SizeOpt};
use crate::runner::Tier;
use crate::spec::{Item, Spec};
use crate::wr::{calls_from_tree, calls_json, run_calls, WCall, WRun};

pub struct Doc {
    pub spec: Spec,
    pub tree: Vec<Node>,
    pub has_raw: bool,
    pub padded: Option<u64>,
    pub last_empty: bool,
}

#[derive(Clone, Copy)]
pub struct DocOpts {
    pub p_width: u64,
    pub p_unknown: u64,
    pub raw: bool,
    pub shaping: bool,
    pub full_specs: bool,
}

impl DocOpts {
    pub const PLAIN: DocOpts = DocOpts { p_width: 0, p_unknown: 0, raw: false, shaping: true, full_specs: false };
    pub const MIXED: DocOpts = DocOpts { p_width: 12, p_unknown: 10, raw: true, shaping: true, full_specs: false };
}

pub fn tree_bounds(tier: Tier, rng: &mut Rng) -> TreeBounds {
    match tier {
        Tier::Quick => {
            if rng.chance(1, 4) {
                TreeBounds::quick()
            } else {
                TreeBounds::small()
            }
        }
        Tier::Thorough => match rng.below(10) {
            0 => TreeBounds::thorough(),
            1..=4 => TreeBounds::quick(),
            _ => TreeBounds::small(),
        },
    }
}

pub fn gen_doc(rng: &mut Rng, tier: Tier, o: &DocOpts) -> Doc {
    let sb = if o.full_specs { SpecBounds::FULL } else { SpecBounds::PLAIN };
    let mut spec = gen::pick_spec(rng, &sb);
    let tb = tree_bounds(tier, rng);
    let mut tree = gen::gen_tree(rng, &spec, &tb);
    // one document in 300: a scale document (hundreds to thousands of siblings, or hundreds of nesting levels)
    if rng.chance(1, 300) {
        let (s, t, _kind) = gen::gen_scale_tree(rng, o.full_specs);
        spec = s;
        tree = t;
    }
    let mut has_raw = false;
    if o.raw && rng.chance(1, 8) {
        let n = rng.urange(1, 3);
        gen::add_raw_tags(rng, &spec, &mut tree, n);
        has_raw = true;
    }
    let mut padded = None;
    let mut last_empty = false;
    if o.shaping {
        if rng.chance(1, 5) {
            let t = if rng.chance(1, 300) { 2_097_151 } else { *rng.pick(&[126u64, 127, 128, 16382, 16383, 16384, 127, 16383]) };
            if gen::pad_master_to(rng, &mut tree, t) {
                padded = Some(t);
            }
        }
        if rng.chance(1, 6) {
            last_empty = gen::make_last_empty(&mut tree);
        }
    }
    gen::assign_opts(rng, &spec, &mut tree, o.p_width, o.p_unknown);
    if o.shaping && o.p_width > 0 && rng.chance(1, 12) {
        // after the options are assigned: an explicit-width master right behind 2^(7w)-1 bytes of its parent's content
        if gen::shape_offset_boundary(rng, &mut tree) {
            gen::fix_widths(&mut tree);
            // the inserted Void is a global element: an unknown-size master directly in front of it would be ambiguous
            gen::fix_unknown(&spec, &mut tree);
        }
    }
    Doc { spec, tree, has_raw, padded, last_empty }
}

/// Present the tree to the real writer with random Full-collapsing / deprecated-call choices.
pub fn write_doc(rng: &mut Rng, tree: &[Node], sink: ScriptedWrite) -> (Vec<WCall>, WRun) {
    let p_collapse = *rng.pick(&[0u64, 0, 30, 60, 100]);
    let deprecated = rng.chance(1, 3);
    let mut r2 = rng.fork();
    let calls = calls_from_tree(tree, &mut |_n| r2.below(100) < p_collapse, deprecated);
    let run = run_calls(&calls, sink);
    (calls, run)
}

pub fn doc_json(d: &Doc) -> J {
    J::obj().set("spec", d.spec.to_json()).set("tree", J::s(tree_short(&d.tree)))
}

pub fn doc_json_full(d: &Doc, calls: &[WCall], bytes: &[u8]) -> J {
    doc_json(d).set("writer_calls", calls_json(calls, 60)).set("bytes", J::s(hex_short(bytes, 400))).set("byte_len", J::u(bytes.len()))
}

/// Describe the first point where `got` diverges from `expected` (for narrow signatures).
pub fn first_diff(expected: &[Item], got: &[Item]) -> Option<usize> {
    let n = expected.len().min(got.len());
    for i in 0..n {
        if expected[i] != got[i] {
            return Some(i);
        }
    }
    if expected.len() != got.len() {
        Some(n)
    } else {
        None
    }
}

/// Class of an expected item for signatures: type + payload length class.
pub fn item_class(it: Option<&Item>) -> String {
    match it {
        None => "end-of-stream".into(),
        Some(Item::Start(_)) => "master-start".into(),
        Some(Item::End(_)) => "master-end".into(),
        Some(Item::Full(..)) => "master-full".into(),
        Some(x) => {
            let t = match x {
                Item::U(..) => "uint",
                Item::I(..) => "sint",
                Item::F(..) => "float",
                Item::S(..) => "utf8",
                Item::B(..) => "binary",
                _ => "raw",
            };
            format!("{}-{}", t, gen::len_class(enc_payload_canonical(x).len()))
        }
    }
}

/// For each item of `flat(tree)`: a class string (type, size option, payload/content length class).
pub fn flat_classes(tree: &[Node]) -> Vec<String> {
    fn opt_s(o: SizeOpt) -> String {
        match o {
            SizeOpt::Default => "default".into(),
            SizeOpt::Width(w) => format!("w{}", w),
            SizeOpt::Unknown => "unknown".into(),
        }
    }
    fn go(n: &Node, out: &mut Vec<String>) {
        if n.is_master() {
            let cl = gen::len_class(gen::content_len(n) as usize);
            out.push(format!("master-start-{}-content-{}", opt_s(n.opt), cl));
            for c in &n.children {
                go(c, out);
            }
            out.push(format!("master-end-{}-content-{}", opt_s(n.opt), cl));
        } else {
            out.push(format!("{}-{}", item_class(Some(&n.item)), opt_s(n.opt)));
        }
    }
    let mut out = Vec::new();
    for n in tree {
        go(n, &mut out);
    }
    out
}
