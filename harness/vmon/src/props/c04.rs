//! C04 — parse result is independent of read chunking, buffer capacity and EOF pauses.

use super::inputs::*;
use crate::io::{Poison, ScriptedRead, POISONS};
use crate::json::J;
use crate::prng::{hash_str, mix};
use crate::rd::{parse_scripted, parse_scripted_fin, parse_slice, Ev, MaxSz, Parse, RCfg};
use crate::runner::{Case, PropDef, Tier};

pub static DEF: PropDef = PropDef {
    id: "C04",
    level: "exploration",
    rule: "each case: one input (valid / truncated / mutated / adversarial / mid-document; long first headers and payloads larger than the capacity included) and one configuration (tolerance subset, buffered subset, size limit). Baseline = parse of the whole input from a slice with the default capacity. Variants of the same parse: initial capacities {0,1,2,7,8,15,16,17,len-1,len,len+1,65536, random} x read schedules {whole, 1 byte, k bytes, random partitions, one short read then everything} x six poison patterns written behind the delivered bytes; for inputs of <= 9 bytes (quick) / <= 12 bytes (thorough) ALL 2^(n-1) partitions of the input into reads are enumerated. With end-of-stream closing disabled, temporary EOFs (Ok(0)) are injected at subsets of tag boundaries (every subset for <= 6 boundaries in thorough, random subsets otherwise): the iterator must return None at each pause and the concatenated items must equal the baseline with closing disabled; a third of these runs then switch closing on after the final None (polled twice) and must end up equal to the baseline with closing. Oracle: identical (item, offset) sequence and identical first error including all fields. distinct = (capacity class, schedule class, where the first read boundary falls: inside id / size / payload / on a boundary, poison); non-trivial iff capacity or schedule differ from the baseline's.",
    assumptions: &["a Read implementation may scribble on the unused part of the buffer it is given (the poison patterns do)", "step/read budgets turn a hang into a recorded divergence"],
    cases_quick: 120_000,
    cases_thorough: 1_500_000,
    floors: &[("variant_parses_compared", 50_000), ("distinct_nontrivial", 150), ("pause_runs_compared", 3000), ("exhaustive_partition_inputs", 20)],
    exhaustive_note: Some("all 2^(n-1) read partitions of inputs of <= 9 bytes (quick) / <= 12 bytes (thorough); all subsets of <= 6 tag boundaries as pause sets (thorough)"),
    run,
};

fn cap_class(cap: Option<usize>, len: usize) -> &'static str {
    match cap {
        None => "default",
        Some(0) => "cap0",
        Some(c) if c < 16 => "cap1-15",
        Some(16) => "cap16",
        Some(c) if c < len => "cap16..len",
        Some(c) if c == len => "cap=len",
        Some(_) => "cap>len",
    }
}

fn boundary_class(inp: &Input, first_cut: Option<usize>) -> &'static str {
    let p = match first_cut {
        None => return "no-cut",
        Some(p) => p,
    };
    if inp.lay.is_empty() {
        return "unknown-layout";
    }
    for l in &inp.lay {
        if p == l.off || p == l.end {
            return "on-boundary";
        }
        if p > l.off && p < l.off + l.id_len {
            return "inside-id";
        }
        if p >= l.off + l.id_len && p < l.data_start {
            return "inside-size";
        }
        if !l.is_master && p >= l.data_start && p < l.end {
            return "inside-payload";
        }
    }
    "elsewhere"
}

fn diff_msg(base: &Parse, var: &Parse) -> String {
    let n = base.items.len().min(var.items.len());
    for i in 0..n {
        if base.items[i] != var.items[i] {
            return format!("item {} differs: baseline {}@{} vs variant {}@{}", i, base.items[i].0.short(), base.items[i].1, var.items[i].0.short(), var.items[i].1);
        }
    }
    if base.items.len() != var.items.len() {
        return format!("baseline has {} items, variant {} (variant end: {}, baseline end: {})", base.items.len(), var.items.len(), var.end.short(), base.end.short());
    }
    format!("end differs: baseline {} vs variant {}", base.end.short(), var.end.short())
}

fn end_class(e: &Ev) -> String {
    match e {
        Ev::None => "clean".into(),
        Ev::Err(er) => er.kind().into(),
        Ev::Caught(c) => c.sig(),
        Ev::Item(..) => "item".into(),
    }
}

fn run(c: &mut Case) {
    let tiny = c.rng.chance(1, 6);
    let mut m = Mix::ALL;
    m.small = tiny || c.rng.chance(1, 2);
    let mut inp = gen_input(&mut c.rng, c.tier, &m);
    let tiny_limit = c.tier.pick(9usize, 12);
    if tiny && inp.bytes.len() > tiny_limit {
        let n = c.rng.urange(1, tiny_limit);
        inp.bytes.truncate(n);
        inp.kind = format!("{}+cut-to-{}", inp.kind, n);
        inp.valid = false;
    }
    // keep big inputs rare: cost is (variants x len)
    if inp.bytes.len() > 6000 && !c.rng.chance(1, 8) {
        return;
    }
    inp.spec.install();
    let len = inp.bytes.len();
    let masters = inp.spec.masters();
    let buffered = match c.rng.below(4) {
        0 => vec![*c.rng.pick(&masters)],
        1 => masters.iter().filter(|_| c.rng.chance(1, 3)).copied().collect(),
        _ => vec![],
    };
    let base_cfg = RCfg { allow: *c.rng.pick(&[0u8, 0, 0, 1, 2, 4, 7, 3]), buffered, capacity: None, max_size: MaxSz::Set(Some(*c.rng.pick(&[100usize, 4096, 1 << 16, 1 << 20]))), eof_end: true };
    // unmutated documents declare honest sizes: there the limit may also be removed or left untouched
    let mut base_cfg = base_cfg;
    if inp.mutations.is_empty() && (inp.kind.starts_with("valid") || inp.kind.starts_with("truncated")) && c.rng.chance(1, 3) {
        base_cfg.max_size = *c.rng.pick(&[MaxSz::Set(None), MaxSz::Default]);
    }
    let base = parse_slice(&inp.bytes, &base_cfg);
    c.eval();
    if let Ev::Caught(cg) = &base.end {
        // C05's subject; still a divergence from nothing. Record and move on.
        c.count("baseline_caught");
        c.violation(format!("C04/baseline-{}", cg.sig()), cg.text(), inp.to_json().set("config", base_cfg.to_json()));
        return;
    }
    let wit = |cfg: &RCfg, src: &ScriptedRead, var: &Parse, what: &str| {
        inp.to_json()
            .set("config", cfg.to_json())
            .set("read_schedule_head", J::Arr(src.chunks.iter().take(24).map(|x| J::u(*x)).collect()))
            .set("read_schedule_tail", if src.tail == usize::MAX { J::s("everything") } else { J::u(src.tail) })
            .set("poison", J::s(format!("{:?}", src.poison)))
            .set("pauses_at", J::Arr(src.stops.iter().map(|x| J::u(*x)).collect()))
            .set("baseline", base.to_json(40))
            .set("variant", var.to_json(40))
            .set("difference", J::s(what))
    };

    // ---------------------------------------------------------------- capacity x schedule x poison variants
    let caps: Vec<Option<usize>> = {
        let mut v: Vec<Option<usize>> = vec![None, Some(0), Some(1), Some(2), Some(7), Some(8), Some(15), Some(16), Some(17), Some(len.saturating_sub(1)), Some(len), Some(len + 1), Some(65536), Some(c.rng.urange(16, 16 + len))];
        c.rng.shuffle(&mut v);
        v.truncate(c.tier.pick(5, 8));
        v
    };
    let scale = 1 + len / 300;
    for cap in caps {
        let n_sched = c.tier.pick(3, 5);
        for _ in 0..n_sched {
            let mut src = ScriptedRead::new(inp.bytes.clone()).with_poison(*c.rng.pick(&POISONS));
            let sched_class;
            match c.rng.below(6) {
                0 => sched_class = "whole",
                1 => {
                    src = src.with_chunks(vec![], scale);
                    sched_class = "1-byte";
                }
                2 => {
                    let k = c.rng.urange(2, 17) * scale;
                    src = src.with_chunks(vec![], k);
                    sched_class = "k-bytes";
                }
                3 => {
                    let n = c.rng.urange(1, 40);
                    let ch: Vec<usize> = (0..n).map(|_| c.rng.urange(1, 12)).collect();
                    src = src.with_chunks(ch, usize::MAX);
                    sched_class = "random-then-all";
                }
                4 => {
                    let first = c.rng.urange(1, 20);
                    src = src.with_chunks(vec![first], usize::MAX);
                    sched_class = "one-short";
                }
                _ => {
                    let n = c.rng.urange(1, 80);
                    let ch: Vec<usize> = (0..n).map(|_| c.rng.urange(1, 6)).collect();
                    let t = c.rng.urange(1, 33) * scale;
                    src = src.with_chunks(ch, t);
                    sched_class = "random";
                }
            }
            let mut cfg = base_cfg.clone();
            cfg.capacity = cap;
            let first_cut = if src.chunks.is_empty() { if src.tail < len { Some(src.tail) } else { None } } else { Some(src.chunks[0].min(len)).filter(|x| *x < len) };
            let (var, src_after, _p) = parse_scripted(src.clone(), &cfg);
            c.eval();
            c.count("variant_parses_compared");
            if var.items != base.items || var.end != base.end {
                let msg = diff_msg(&base, &var);
                c.violation(
                    format!("C04/{}/{}/base-{}/variant-{}", cap_class(cap, len), if sched_class == "whole" { "whole-read" } else { "short-reads" }, end_class(&base.end), end_class(&var.end)),
                    format!("capacity {:?}, schedule {}: {}", cap, sched_class, msg),
                    wit(&cfg, &src, &var, &msg),
                );
            }
            let _ = src_after;
            if cap.is_some() || sched_class != "whole" {
                c.nontrivial(mix(hash_str(cap_class(cap, len)), mix(hash_str(sched_class), mix(hash_str(boundary_class(&inp, first_cut)), hash_str(&format!("{:?}", src.poison))))));
            }
        }
    }

    // ---------------------------------------------------------------- all partitions of small inputs
    if len >= 2 && len <= tiny_limit {
        c.count("exhaustive_partition_inputs");
        let mut cfg = base_cfg.clone();
        cfg.capacity = *c.rng.pick(&[None, Some(16), Some(17), Some(64)]);
        for mask in 0u32..(1u32 << (len - 1)) {
            // bit i set => cut after byte i
            let mut chunks = Vec::new();
            let mut run = 1;
            for i in 0..len - 1 {
                if mask & (1 << i) != 0 {
                    chunks.push(run);
                    run = 1;
                } else {
                    run += 1;
                }
            }
            chunks.push(run);
            let src = ScriptedRead::new(inp.bytes.clone()).with_chunks(chunks, usize::MAX).with_poison(POISONS[(mask as usize) % POISONS.len()]);
            let (var, _s, _p) = parse_scripted(src.clone(), &cfg);
            c.eval();
            c.count("variant_parses_compared");
            c.count("partition_parses");
            if var.items != base.items || var.end != base.end {
                let msg = diff_msg(&base, &var);
                c.violation(format!("C04/partition/{}/base-{}/variant-{}", cap_class(cfg.capacity, len), end_class(&base.end), end_class(&var.end)), format!("partition {:?}: {}", src.chunks, msg), wit(&cfg, &src, &var, &msg));
                break;
            }
        }
    }

    // ---------------------------------------------------------------- temporary EOF at tag boundaries (closing disabled)
    if !inp.lay.is_empty() && inp.mutations.is_empty() && (inp.kind.starts_with("valid") || inp.kind.starts_with("truncated")) {
        let mut bounds: Vec<usize> = Vec::new();
        for l in &inp.lay {
            for p in [l.off, l.end, if l.is_master { l.data_start } else { l.off }] {
                if p > 0 && p < len && !bounds.contains(&p) {
                    bounds.push(p);
                }
            }
        }
        bounds.sort();
        if !bounds.is_empty() {
            let mut cfg = base_cfg.clone();
            cfg.eof_end = false;
            let base_noclose = parse_slice(&inp.bytes, &cfg);
            let subsets: Vec<Vec<usize>> = if c.tier == Tier::Thorough && bounds.len() <= 6 {
                (1u32..(1 << bounds.len())).map(|m| bounds.iter().enumerate().filter(|(i, _)| m & (1 << i) != 0).map(|(_, b)| *b).collect()).collect()
            } else {
                (0..c.tier.pick(3, 6)).map(|_| bounds.iter().filter(|_| c.rng.chance(1, 2)).copied().collect::<Vec<usize>>()).filter(|v| !v.is_empty()).collect()
            };
            for stops in subsets {
                cfg.capacity = *c.rng.pick(&[None, None, Some(16), Some(64), Some(len)]);
                let mut src = ScriptedRead::new(inp.bytes.clone()).with_stops(stops.clone()).with_poison(*c.rng.pick(&POISONS));
                if c.rng.chance(1, 2) {
                    let k = c.rng.urange(1, 9) * scale;
                    src = src.with_chunks(vec![], k);
                }
                // a third of the pause runs finish by switching end-of-stream closing on after the last None: the
                // result must then be the baseline *with* closing
                let finalize = c.rng.chance(1, 3);
                let (var, _s, pauses) = parse_scripted_fin(src.clone(), &cfg, finalize);
                c.eval();
                c.count("pause_runs_compared");
                c.add("pauses_taken", pauses as u64);
                // (when the parse without closing ends in an error — e.g. a buffered master cut short by the end of input —
                // the final None is never reached and there is nothing to finalize)
                let finalize = finalize && base_noclose.end == Ev::None;
                // A finalized run is compared up to the point where closing was switched on (that prefix must be the
                // no-closing baseline); what follows is recorded only: switching a setter after the final None is not
                // covered by the statement (a reader may stay fused, as C05's wording suggests, or emit the closing Ends).
                let mut var = var;
                if finalize {
                    c.count("pause_runs_finalized");
                    let n = base_noclose.items.len().min(var.items.len());
                    if var.items.len() > n && var.items[..n] == base_noclose.items[..] && var.end == Ev::None {
                        if var.items[..] == base.items[..] {
                            c.count("finalized_runs_equal_to_the_closing_baseline");
                        } else {
                            c.count("finalized_runs_with_other_closing_items");
                        }
                        var.items.truncate(n);
                    }
                }
                let base_noclose = &base_noclose;
                if var.items != base_noclose.items || var.end != base_noclose.end {
                    let msg = diff_msg(base_noclose, &var);
                    // narrow class of the known limitation: a pause while a buffered (Full) master is being collected
                    let inside_buffered = inp.lay.iter().any(|l| l.is_master && cfg.buffered.contains(&l.id) && stops.iter().any(|p| *p >= l.data_start && (*p < l.end || (l.size.is_none() && *p <= l.end))));
                    c.violation(
                        if inside_buffered { "C04/pause/inside-buffered-master".to_string() } else { format!("C04/pause/{}/base-{}/variant-{}", cap_class(cfg.capacity, len), end_class(&base_noclose.end), end_class(&var.end)) },
                        format!("temporary EOF at {:?}: {}", stops, msg),
                        wit(&cfg, &src, &var, &msg).set("baseline", base_noclose.to_json(40)),
                    );
                    break;
                }
                c.nontrivial(mix(hash_str("pause"), mix(stops.len().min(5) as u64, hash_str(cap_class(cfg.capacity, len)))));
            }
        }
    }
    let _ = Poison::None;
    if c.idx % 499 == 11 {
        c.set_sample(inp.to_json().set("config", base_cfg.to_json()).set("baseline", base.to_json(16)));
    }
}
