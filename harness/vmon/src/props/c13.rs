//! C13 — each tolerance switch relaxes only its own check; relaxing never loses tags.

use super::common::*;
use super::inputs::*;
use crate::gen;
use crate::json::{hex_short, J};
use crate::prng::{hash_str, mix, Rng};
use crate::rd::{parse_slice, ErrRec, Ev, MaxSz, Parse, RCfg, ALLOW_HIER, ALLOW_IDS, ALLOW_OVERSIZE};
use crate::refcodec::{enc_tree, enc_vint, flat, id_bytes, to_rnodes, tree_short, Lay, Node, RBody, RNode, RSz, SizeOpt};
use crate::runner::{Case, PropDef};
use crate::spec::{ref_path_match, Item, Spec, Ty};

pub static DEF: PropDef = PropDef {
    id: "C13",
    level: "exploration",
    rule: "each case runs five sub-monitors on the real iterator. (a) single-fault documents: a valid document (reference encoded, known and unknown sizes) receives exactly one fault of a known class at a random eligible element — id replaced by an id outside the specification / a known element inserted under a known-size parent that does not allow it / a leaf's declared size enlarged to overrun its known-size parent / a size limit set just below the first element that exceeds it — and the strict parse must yield exactly the items before the faulty element and then that class's error kind carrying the element's offset and id, with no raw tag among the Ok items; (c) the same document parsed while tolerating each OTHER single class must fail identically; with the faulty class tolerated that error kind must not occur; (b) on all inputs of (e), a parse that tolerates class X must never end in X's error kind; (d) a header declaring more than the limit in force — the untouched default 4*10^9 in half of the cases, else 2^16 or 2^20 set explicitly; declared sizes from a lattice around every vint-width boundary above the limit (2^(7k)-2, 2^(7k)-1, 2^(7k), 2^(7k)+1 for k <= 7), next to 4*10^9 and the largest 8-byte value, in every field width that can hold them; at root, inside known- and unknown-size masters — is rejected with InvalidTagSize under all 8 tolerance settings, and once the limit is removed (None) or raised the same master must be accepted; (e) arbitrary inputs that start at a root element (valid, truncated, mutated, adversarial) are parsed under all 8 tolerance subsets: the strict Ok items (values and offsets) must be a prefix of every more tolerant parse. distinct = (fault class x tolerated set) pairs and (input kind x first strict error kind); non-trivial iff the fault is not at the first element / the strict parse has >= 2 items.",
    assumptions: &["reference encoder/layout", "hierarchy faults are inserted under known-size parents (or at root level) so that no unknown-size closing semantics can legitimise them", "in (d) a runaway allocation is caught by the allocator ceiling (1 GiB) and reported by the supervisor"],
    cases_quick: 150_000,
    cases_thorough: 2_000_000,
    floors: &[("single_fault_docs", 3000), ("fault_x_tolerance_pairs", 20_000), ("prefix_comparisons", 20_000), ("default_limit_probes", 2000), ("distinct_nontrivial", 40), ("fault_unknown-id", 500), ("fault_hierarchy", 500), ("fault_oversized-child", 300), ("fault_size-limit", 500)],
    exhaustive_note: Some("all 8 tolerance subsets for every single-fault document, default-limit probe and prefix input"),
    run,
};

const KIND_OF_CLASS: [(&str, &str, u8); 4] = [("unknown-id", "InvalidTagId", ALLOW_IDS), ("hierarchy", "HierarchyError", ALLOW_HIER), ("oversized-child", "OversizedChildElement", ALLOW_OVERSIZE), ("size-limit", "InvalidTagSize", 0)];

struct Fault {
    class: &'static str,
    bytes: Vec<u8>,
    /// offset and id of the faulty element, declared size when relevant
    off: usize,
    id: u64,
    size: Option<usize>,
    expected_prefix: Vec<Item>,
    optional_ends: Vec<Item>,
    limit: usize,
    desc: String,
}

fn leaves_preorder<'a>(nodes: &'a mut [RNode], out: &mut Vec<*mut RNode>) {
    for n in nodes.iter_mut() {
        let p: *mut RNode = n;
        match &mut n.body {
            RBody::Master(ch) => leaves_preorder(ch, out),
            RBody::Payload(_) => out.push(p),
        }
    }
}

/// expected strict items before layout entry `k` (pre-order index): all complete elements before it and the Ends of
/// masters that closed before it. Second vector: don't-care Ends (unknown-size masters that only the faulty element
/// itself would close; a failing element does not close them in the real iterator, a different design might).
fn prefix_before(spec: &Spec, bytes: &[u8], lay: &[Lay], k: usize) -> (Vec<Item>, Vec<Item>) {
    let mut items = Vec::new();
    let mut open: Vec<usize> = Vec::new();
    for (i, l) in lay.iter().enumerate() {
        let mut anc = Vec::new();
        let mut p = l.parent;
        while let Some(pi) = p {
            anc.push(pi);
            p = lay[pi].parent;
        }
        let keep = open.iter().take_while(|o| anc.contains(o)).count();
        let j = (keep..open.len()).find(|x| lay[open[*x]].size.is_some()).unwrap_or(open.len());
        let mandatory: Vec<Item> = open[j..].iter().rev().map(|x| Item::End(lay[*x].id)).collect();
        let optional: Vec<Item> = open[keep..j].iter().rev().map(|x| Item::End(lay[*x].id)).collect();
        items.extend(mandatory);
        if i == k {
            return (items, optional);
        }
        items.extend(optional);
        open.truncate(keep);
        if l.is_master {
            items.push(Item::Start(l.id));
            open.push(i);
        } else {
            items.push(crate::refcodec::lay_value(spec, bytes, l).unwrap_or(Item::B(l.id, vec![])));
        }
    }
    (items, vec![])
}

fn make_fault(rng: &mut Rng, spec: &Spec, tree: &[Node], class: &'static str) -> Option<Fault> {
    let mut rn = to_rnodes(tree);
    // unknown-size masters get a random all-ones width
    fn widths(rng: &mut Rng, ns: &mut [RNode]) {
        for n in ns.iter_mut() {
            if let RSz::Unknown(_) = n.sz {
                n.sz = RSz::Unknown(rng.urange(1, 8));
            }
            if let RBody::Master(ch) = &mut n.body {
                widths(rng, ch);
            }
        }
    }
    widths(rng, &mut rn);
    let (bytes0, lay0) = enc_tree(&rn);
    match class {
        "unknown-id" => {
            let leaf_idx: Vec<usize> = lay0.iter().enumerate().filter(|(_, l)| !l.is_master).map(|(i, _)| i).collect();
            if leaf_idx.is_empty() {
                return None;
            }
            let k = *rng.pick(&leaf_idx);
            let l = &lay0[k];
            let nid = loop {
                let x = gen::random_id(rng, l.id_len);
                if spec.get(x).is_none() {
                    break x;
                }
            };
            let mut b = bytes0.clone();
            b[l.off..l.off + l.id_len].copy_from_slice(&id_bytes(nid));
            { let (ep, oe) = prefix_before(spec, &bytes0, &lay0, k); Some(Fault { class, bytes: b, off: l.off, id: nid, size: None, expected_prefix: ep, optional_ends: oe, limit: 1 << 24, desc: format!("id of leaf #{} replaced by unknown id {:x}", k, nid) }) }
        }
        "hierarchy" => {
            // choose a known-size master (or the root level) and insert an element that is not allowed there
            let mut spots: Vec<Option<usize>> = vec![None];
            for (i, l) in lay0.iter().enumerate() {
                if l.is_master && l.size.is_some() {
                    spots.push(Some(i));
                }
            }
            let spot = *rng.pick(&spots);
            let chain: Vec<u64> = match spot {
                None => vec![],
                Some(i) => {
                    let mut ch = vec![lay0[i].id];
                    let mut p = lay0[i].parent;
                    while let Some(pi) = p {
                        ch.push(lay0[pi].id);
                        p = lay0[pi].parent;
                    }
                    ch.reverse();
                    ch
                }
            };
            let bad: Vec<&crate::spec::Elem> = spec.elems.iter().filter(|e| !ref_path_match(&e.path, &chain)).collect();
            if bad.is_empty() {
                return None;
            }
            let e = *rng.pick(&bad);
            let newnode = RNode { id: e.id, sz: RSz::Min, body: if e.ty == Ty::Master { RBody::Master(vec![]) } else { RBody::Payload(crate::refcodec::enc_payload_canonical(&gen::gen_value(rng, e.id, e.ty, false))) } };
            // navigate to the master in rn that corresponds to layout index `spot` (pre-order)
            fn nth_master<'a>(ns: &'a mut Vec<RNode>, target: usize, counter: &mut usize) -> Option<&'a mut Vec<RNode>> {
                for n in ns.iter_mut() {
                    let me = *counter;
                    *counter += 1;
                    if let RBody::Master(ch) = &mut n.body {
                        if me == target {
                            return Some(ch);
                        }
                        if let Some(x) = nth_master(ch, target, counter) {
                            return Some(x);
                        }
                    }
                }
                None
            }
            let pos_in;
            match spot {
                None => {
                    // after at least one root element so that the position is fixed
                    pos_in = rng.urange(1, rn.len());
                    rn.insert(pos_in, newnode);
                }
                Some(i) => {
                    let mut counter = 0;
                    let ch = nth_master(&mut rn, i, &mut counter)?;
                    pos_in = rng.urange(0, ch.len());
                    ch.insert(pos_in, newnode);
                }
            }
            let (bytes, lay) = enc_tree(&rn);
            // find the inserted element in the new layout: child #pos_in of the spot
            let k = match spot {
                None => lay.iter().enumerate().filter(|(_, l)| l.parent.is_none()).nth(pos_in).map(|x| x.0)?,
                Some(i) => lay.iter().enumerate().filter(|(_, l)| l.parent == Some(i)).nth(pos_in).map(|x| x.0)?,
            };
            if lay[k].id != e.id {
                return None;
            }
            { let (ep, oe) = prefix_before(spec, &bytes, &lay, k); Some(Fault { class, off: lay[k].off, id: e.id, size: None, expected_prefix: ep, optional_ends: oe, bytes, limit: 1 << 24, desc: format!("element {} inserted under chain {:x?}", spec.path_str(e), chain) }) }
        }
        "oversized-child" => {
            let cands: Vec<usize> = lay0.iter().enumerate().filter(|(_, l)| !l.is_master && matches!(spec.ty(l.id), Some(Ty::S) | Some(Ty::B)) && l.parent.map(|p| lay0[p].size.is_some()).unwrap_or(false)).map(|(i, _)| i).collect();
            if cands.is_empty() {
                return None;
            }
            let k = *rng.pick(&cands);
            let l = &lay0[k];
            // nearest enclosing known-size master end
            let pend = lay0[l.parent.unwrap()].end;
            let actual = l.size.unwrap() as usize;
            let lie = actual + (pend - l.end) + rng.urange(1, 40);
            let mut ptrs = Vec::new();
            leaves_preorder(&mut rn, &mut ptrs);
            let leaf_no = lay0[..k].iter().filter(|x| !x.is_master).count();
            unsafe {
                (*ptrs[leaf_no]).sz = RSz::Lie(4, lie as u64);
            }
            let (bytes, lay) = enc_tree(&rn);
            { let (ep, oe) = prefix_before(spec, &bytes, &lay, k); Some(Fault { class, off: lay[k].off, id: lay[k].id, size: Some(lie), expected_prefix: ep, optional_ends: oe, bytes, limit: 1 << 24, desc: format!("leaf #{} declares {} bytes (has {}), parent ends {} bytes after it", k, lie, actual, pend - l.end) }) }
        }
        "size-limit" => {
            let maxs = lay0.iter().filter_map(|l| l.size).max()?;
            if maxs == 0 {
                return None;
            }
            let limit = (maxs - 1) as usize;
            let k = lay0.iter().position(|l| l.size.map(|s| s as usize > limit).unwrap_or(false))?;
            { let (ep, oe) = prefix_before(spec, &bytes0, &lay0, k); Some(Fault { class, off: lay0[k].off, id: lay0[k].id, size: lay0[k].size.map(|s| s as usize), expected_prefix: ep, optional_ends: oe, bytes: bytes0, limit, desc: format!("size limit {} set; element #{} declares {}", limit, k, maxs) }) }
        }
        _ => None,
    }
}

fn err_matches(class: &str, f: &Fault, e: &ErrRec) -> bool {
    match (class, e) {
        ("unknown-id", ErrRec::InvalidTagId { pos, id }) => *pos == f.off && *id == f.id,
        ("hierarchy", ErrRec::Hierarchy { found, .. }) => *found == f.id,
        // kind and offset are what the statement names; the id at that offset identifies the offending element; the size
        // field of these two errors is not compared (nothing says which size it has to carry)
        ("oversized-child", ErrRec::OversizedChild { pos, id, .. }) => *pos == f.off && *id == f.id,
        ("size-limit", ErrRec::InvalidTagSize { pos, id, .. }) => *pos == f.off && *id == f.id,
        _ => false,
    }
}

fn run(c: &mut Case) {
    // ---------------------------------------------------------------- (a) (c): single-fault documents
    {
        let (class, kind, bit) = KIND_OF_CLASS[(c.idx % 4) as usize];
        // hierarchy faults need all-known sizes: an open unknown-size master before the insertion point could legitimately adopt the element
        let o = DocOpts { p_width: 5, p_unknown: if class == "hierarchy" { 0 } else { *c.rng.pick(&[0u64, 20]) }, raw: false, shaping: false, full_specs: false };
        let doc = gen_doc(&mut c.rng, c.tier, &o);
        doc.spec.install();
        if !doc.tree.is_empty() && crate::refcodec::count_nodes(&doc.tree) >= 2 {
            if let Some(f) = make_fault(&mut c.rng, &doc.spec, &doc.tree, class) {
                c.count("single_fault_docs");
                c.count(&format!("fault_{}", class));
                let wit = |cfg: &RCfg, p: &Parse, msg: &str| {
                    J::obj().set("spec", doc.spec.to_json()).set("tree", J::s(tree_short(&doc.tree))).set("fault_class", J::s(class)).set("fault", J::s(f.desc.clone())).set("fault_offset", J::u(f.off)).set("bytes", J::s(hex_short(&f.bytes, 500))).set("config", cfg.to_json()).set("expected_items_before_error", crate::spec::items_json(&f.expected_prefix, 60)).set("parse", p.to_json(60)).set("problem", J::s(msg))
                };
                for allow in 0u8..8 {
                    let cfg = RCfg { allow, buffered: vec![], capacity: None, max_size: MaxSz::Set(Some(f.limit)), eof_end: true };
                    // a third of the parses read through a scripted source (short reads, small initial capacity): which error
                    // is reported must not depend on how the bytes arrive
                    let p = if c.rng.chance(1, 3) {
                        let src = super::c05::random_source(&mut c.rng, &f.bytes);
                        let cap = *c.rng.pick(&[None, Some(0usize), Some(16), Some(100)]);
                        c.count("fault_parses_with_short_reads");
                        crate::rd::parse_scripted(src, &RCfg { capacity: cap, ..cfg.clone() }).0
                    } else {
                        parse_slice(&f.bytes, &cfg)
                    };
                    c.eval();
                    c.count("fault_x_tolerance_pairs");
                    let tolerated = bit != 0 && allow & bit != 0;
                    if let Ev::Caught(cg) = &p.end {
                        c.violation(format!("C13/fault-{}/allow{}/{}", class, allow, cg.sig()), cg.text(), wit(&cfg, &p, "panic/hang"));
                        continue;
                    }
                    if !tolerated {
                        // must fail exactly there with X's kind — unless an earlier, tolerated-away check changes nothing (single fault)
                        let vals = p.values();
                        let with_opt: Vec<Item> = f.expected_prefix.iter().cloned().chain(f.optional_ends.iter().cloned()).collect();
                        let ok_prefix = vals == f.expected_prefix || vals == with_opt;
                        let ok_err = matches!(&p.end, Ev::Err(e) if err_matches(class, &f, e));
                        // with unknown ids tolerated, raw tags are legitimate; otherwise none may appear
                        let raw_in_strict = allow & ALLOW_IDS == 0 && vals.iter().any(|i| i.is_raw());
                        if raw_in_strict {
                            c.violation(format!("C13/raw-tag-without-tolerance/fault-{}/allow{}", class, allow), "a raw tag was emitted although unknown ids are not tolerated", wit(&cfg, &p, "raw tag among Ok items"));
                        } else if !ok_err {
                            let what = match &p.end { Ev::Err(e) => e.kind().to_string(), Ev::None => "clean".into(), _ => "?".into() };
                            c.violation(format!("C13/{}/fault-{}/allow{}/got-{}", if allow == 0 { "strict-wrong-error" } else { "silenced-by-other-switch" }, class, allow, what), format!("fault of class {} with tolerated set {}: expected {} at offset {} (id {:x}), got {}", class, allow, kind, f.off, f.id, p.end.short()), wit(&cfg, &p, "wrong or missing error"));
                        } else if !ok_prefix {
                            c.violation(format!("C13/items-before-fault/fault-{}/allow{}", class, allow), "items before the faulty element differ from the valid prefix", wit(&cfg, &p, "prefix differs"));
                        }
                    } else {
                        // X tolerated: that kind must be impossible
                        if let Ev::Err(e) = &p.end {
                            if e.kind() == kind {
                                c.violation(format!("C13/tolerated-kind-still-reported/{}/allow{}", kind, allow), format!("{} reported although it is tolerated: {}", kind, e.short()), wit(&cfg, &p, "tolerated error kind occurred"));
                            }
                        }
                    }
                    if !f.expected_prefix.is_empty() {
                        c.nontrivial(mix(hash_str(class), allow as u64));
                    }
                }
                if c.idx % 797 == 1 {
                    let cfg = RCfg::strict();
                    c.set_sample(J::obj().set("sub_monitor", J::s("single fault")).set("spec", doc.spec.to_json()).set("fault_class", J::s(class)).set("fault", J::s(f.desc.clone())).set("bytes", J::s(hex_short(&f.bytes, 200))).set("strict_parse", parse_slice(&f.bytes, &RCfg { max_size: MaxSz::Set(Some(f.limit)), ..cfg }).to_json(12)));
                }
            } else {
                c.count("vacuous_no_fault_site");
            }
        }
    }
    // ---------------------------------------------------------------- (d): default size limit
    {
        let spec = gen::z_kitchen(false);
        spec.install();
        // the limit in force: the untouched default (4*10^9) or one set explicitly; the declared size comes from a
        // lattice around every vint-width boundary above that limit (2^(7k)-2, 2^(7k)-1 — which needs the next wider
        // field and looks like a narrower field's reserved pattern —, 2^(7k), 2^(7k)+1), the values next to the default
        // limit, and the largest 8-byte value; the field is any width that can hold it
        let (limit_mode, limit): (MaxSz, u64) = match c.rng.below(4) {
            0 => (MaxSz::Set(Some(1 << 16)), 1 << 16),
            1 => (MaxSz::Set(Some(1 << 20)), 1 << 20),
            _ => (MaxSz::Default, 4_000_000_000),
        };
        let big: u64 = loop {
            let v = match c.rng.below(4) {
                0 => 4_000_000_000 + 1 + *c.rng.pick(&[0u64, 1, 1000, 1 << 33]),
                1 => (1u64 << 56) - 2 - c.rng.below(2),
                _ => ((1u64 << (7 * c.rng.urange(2, 7))) as i64 + *c.rng.pick(&[-2i64, -1, -1, 0, 1])) as u64,
            };
            if v > limit {
                break v;
            }
        };
        let w = c.rng.urange(crate::refcodec::min_size_width(big).unwrap(), 8);
        let where_ = c.rng.below(3);
        let leaf_id: u64 = *c.rng.pick(&[0x63A2u64, 0x536E, 0xEC]); // Priv (Binary), Name (Utf8) under Seg/Tracks/Entry ; Void
        let mut bytes = Vec::new();
        let mut prefix_items = 0;
        // Seg / Tracks / Entry chain, known (8-byte sizes, generous) or unknown
        let chain = [0x18538067u64, 0x1654AE6B, 0xAE];
        if where_ > 0 {
            for id in chain {
                bytes.extend(id_bytes(id));
                if where_ == 1 {
                    bytes.extend(enc_vint((1u64 << 50) + 77, 8)); // known, larger than the child (master sizes are checked too => use limit-free? no: masters also fall under the limit)
                } else {
                    bytes.extend(crate::refcodec::enc_unknown_size(c.rng.urange(1, 8)));
                }
                prefix_items += 1;
            }
        }
        let off = bytes.len();
        let lid = if where_ == 0 { 0xEC } else { leaf_id };
        bytes.extend(id_bytes(lid));
        bytes.extend(enc_vint(big, w));
        bytes.extend(c.rng.bytes(16));
        for allow in 0u8..8 {
            let cfg = RCfg { allow, buffered: vec![], capacity: None, max_size: limit_mode, eof_end: true };
            let p = parse_slice(&bytes, &cfg);
            c.eval();
            c.count("default_limit_probes");
            if limit_mode != MaxSz::Default {
                c.count("explicit_limit_probes");
            }
            // where_ == 1: the first master itself declares > 4e9 and must already be rejected
            let (exp_off, exp_id) = if where_ == 1 { (0usize, chain[0]) } else { (off, lid) };
            let exp_items = if where_ == 1 { 0 } else { prefix_items };
            let ok = matches!(&p.end, Ev::Err(ErrRec::InvalidTagSize { pos, id, .. }) if *pos == exp_off && *id == exp_id) && p.items.len() == exp_items;
            if !ok {
                c.violation(
                    format!("C13/default-limit/{}/allow{}/got-{}", ["root", "inside-known-size", "inside-unknown-size"][where_ as usize], allow, match &p.end { Ev::Err(e) => e.kind().to_string(), Ev::None => "clean".into(), Ev::Caught(cg) => cg.sig(), _ => "?".into() }),
                    format!("a declared size of {} bytes ({}-byte field) must be rejected with InvalidTagSize while the limit {} is in force; got {} after {} items", big, w, limit, p.end.short(), p.items.len()),
                    J::obj().set("bytes", J::hex(&bytes)).set("config", cfg.to_json()).set("parse", p.to_json(10)),
                );
            }
        }
    }
    // ---------------------------------------------------------------- (d''): sizes up to the limit in force are not "too large"
    // (the default is documented as "more than 4GB" are rejected; a lowered default silently refuses legal files).  A master
    // at root level involves no allocation, so sizes right up to 4*10^9 can be declared; under an explicit small limit a
    // Binary leaf of exactly the limit, payload present, is read as well.
    {
        let spec = gen::z_kitchen(false);
        spec.install();
        let (limit_mode, limit): (MaxSz, u64) = match c.rng.below(4) {
            0 => (MaxSz::Set(Some(1 << 16)), 1 << 16),
            1 => (MaxSz::Set(Some(1 << 20)), 1 << 20),
            _ => (MaxSz::Default, 4_000_000_000),
        };
        let v: u64 = loop {
            let v = match c.rng.below(4) {
                0 => limit - c.rng.below(3),
                1 => limit - c.rng.below(limit / 2),
                _ => ((1u64 << (7 * c.rng.urange(1, 4))) as i64 + *c.rng.pick(&[-2i64, -1, -1, 0, 1])) as u64,
            };
            if v <= limit && v >= 8 {
                break v;
            }
        };
        let w = c.rng.urange(crate::refcodec::min_size_width(v).unwrap(), 8);
        let mut bytes = id_bytes(0x18538067);
        bytes.extend(enc_vint(v, w));
        bytes.extend([0xEC, 0x82, 0x01, 0x02]);
        let cfg = RCfg { allow: c.rng.below(8) as u8, buffered: vec![], capacity: None, max_size: limit_mode, eof_end: true };
        let p = parse_slice(&bytes, &cfg);
        c.eval();
        c.count("within_limit_probes");
        let ok = p.items.first().map(|(i, _)| *i == Item::Start(0x18538067)).unwrap_or(false) && !matches!(&p.end, Ev::Err(ErrRec::InvalidTagSize { .. }));
        if !ok {
            c.violation(
                format!("C13/within-limit-rejected/{}/master", if limit_mode == MaxSz::Default { "default" } else { "explicit" }),
                format!("a master declaring {} bytes ({}-byte field) is within the limit in force ({}) but was handled as {}", v, w, limit, p.end.short()),
                J::obj().set("bytes", J::hex(&bytes)).set("config", cfg.to_json()).set("parse", p.to_json(8)),
            );
        }
        if limit_mode != MaxSz::Default && c.rng.below(if limit > (1 << 16) { 256 } else { 32 }) == 0 {
            // Binary leaf (Priv under Seg/Tracks/Entry, all unknown-size) of exactly v <= limit bytes, payload present
            let mut b2 = Vec::new();
            for id in [0x18538067u64, 0x1654AE6B, 0xAE] {
                b2.extend(id_bytes(id));
                b2.extend(crate::refcodec::enc_unknown_size(1));
            }
            let off = b2.len();
            b2.extend(id_bytes(0x63A2));
            b2.extend(enc_vint(v, w));
            let payload = c.rng.bytes(v as usize);
            b2.extend(&payload);
            let p2 = parse_slice(&b2, &cfg);
            c.eval();
            c.count("within_limit_leaf_probes");
            let ok2 = p2.items.get(3).map(|(i, o)| *o == off && matches!(i, Item::B(0x63A2, d) if *d == payload)).unwrap_or(false);
            if !ok2 {
                c.violation("C13/within-limit-rejected/explicit/leaf", format!("a Binary element of {} bytes is within the limit {} but was handled as {} after {} items", v, limit, p2.end.short(), p2.items.len()), J::obj().set("config", cfg.to_json()).set("declared", J::u(v)).set("parse", p2.to_json(6)));
            }
        }
    }
    // ---------------------------------------------------------------- (d'): a limit that was removed (None) / changed is really gone
    {
        let spec = gen::z_kitchen(false);
        spec.install();
        let w = c.rng.urange(5, 8);
        let big: u64 = *c.rng.pick(&[4_000_000_001u64, 1 << 33, 1 << 40]);
        let w = w.max(crate::refcodec::min_size_width(big).unwrap());
        // a master at root level: no allocation is involved, only the size check
        let mut bytes = id_bytes(0x18538067);
        bytes.extend(enc_vint(big, w));
        bytes.extend([0xEC, 0x82, 0x01, 0x02]);
        let steps: [(&str, MaxSz); 2] = [("None", MaxSz::Set(None)), ("Some(2^41)", MaxSz::Set(Some(1usize << 41)))];
        for (name, ms) in steps {
            let cfg = RCfg { allow: c.rng.below(8) as u8, buffered: vec![], capacity: None, max_size: ms, eof_end: true };
            let p = parse_slice(&bytes, &cfg);
            c.eval();
            c.count("removed_limit_probes");
            let ok = p.items.first().map(|(i, _)| *i == Item::Start(0x18538067)).unwrap_or(false) && !matches!(&p.end, Ev::Err(ErrRec::InvalidTagSize { .. }));
            if !ok {
                c.violation(format!("C13/limit-not-changed/{}", name), format!("after set_max_allowable_tag_size({}) a master declaring {} bytes was still handled as {}", name, big, p.end.short()), J::obj().set("bytes", J::hex(&bytes)).set("config", cfg.to_json()).set("parse", p.to_json(8)));
            }
        }
    }
    // ---------------------------------------------------------------- (b'): a tolerated kind stays impossible through
    // recoveries. A valid document gets a few ids replaced (by unknown ids or other known ones) and a run of zero bytes
    // inserted at an element boundary (0x00 where a size field should start is an error under every setting); it is read
    // byte by byte from a source that reports a one-shot end of file (Ok(0)) inside the junk, so that the first
    // try_recover() runs out of input and has to be repeated. The caller answers every error with try_recover() and goes
    // on. Whatever else happens, no error of a tolerated kind may ever be reported, and no raw tag unless unknown ids
    // are tolerated.
    if c.idx % 6 == 3 {
        let mut m = Mix::MOSTLY_VALID;
        m.small = c.rng.chance(1, 2);
        m.p_unknown = 0;
        let inp = crate::props::inputs::gen_valid(&mut c.rng, c.tier, &m);
        inp.spec.install();
        if inp.lay.len() >= 3 && inp.bytes.len() <= 4096 {
            let n_ids = c.rng.urange(1, 3);
            let (mut bytes, _kinds) = crate::mutate::mutate_ids_only(&mut c.rng, &inp.spec, &inp.bytes, &inp.lay, n_ids);
            let at = inp.lay[c.rng.urange(1, inp.lay.len() - 1)].off;
            let jl = c.rng.urange(2, 12);
            bytes.splice(at..at, std::iter::repeat(0u8).take(jl));
            let allow = c.rng.below(8) as u8;
            let cfg = RCfg { allow, buffered: vec![], capacity: *c.rng.pick(&[None, Some(16), Some(64)]), max_size: MaxSz::Set(Some(1 << 20)), eof_end: c.rng.chance(1, 2) };
            // a temporary end of file that lasts until the caller's next-but-one call: it is met by the look-ahead of the
            // next() that reports the junk and is still in force during the first try_recover()
            let blip = at + c.rng.urange(2, jl);
            let src = crate::io::ScriptedRead::new(bytes.clone()).with_chunks(vec![], 1).with_stops(vec![blip]);
            let len = bytes.len();
            let mut it = crate::rd::make_iter(src, &cfg);
            let mut log: Vec<String> = Vec::new();
            let mut items = 0usize;
            let mut problem: Option<(String, String)> = None;
            let mut nones = 0;
            for _ in 0..(6 * len + 64) {
                it.get_mut().begin_api_call();
                match crate::rd::next_ev(&mut it, crate::rd::step_budget(len, items)) {
                    Ev::Item(i, _) => {
                        items += 1;
                        if i.is_raw() && allow & ALLOW_IDS == 0 {
                            problem = Some(("raw-tag-without-tolerance".into(), format!("raw tag {} emitted although unknown ids are not tolerated", i.short())));
                            break;
                        }
                    }
                    Ev::None => {
                        nones += 1;
                        if it.get_ref().exhausted() || nones > 4 {
                            break;
                        }
                    }
                    Ev::Caught(_) => break, // panics and budgets are C05's subject
                    Ev::Err(e) => {
                        if log.len() < 40 {
                            log.push(e.short());
                        }
                        if let Some((_, kind, _)) = KIND_OF_CLASS.iter().find(|(_, kind, bit)| *bit != 0 && allow & bit != 0 && e.kind() == *kind) {
                            problem = Some((format!("{}", kind), format!("{} reported although it is tolerated (set {}): {}", kind, allow, e.short())));
                            break;
                        }
                        // answer with try_recover(), twice if the first one runs into the temporary end of file
                        let mut gave_up = false;
                        for attempt in 0..3 {
                            if attempt > 0 {
                                it.get_mut().begin_api_call(); // more data has arrived
                            }
                            match crate::rd::recover_ev(&mut it, crate::rd::step_budget(len, items)) {
                                Ok(Ok(())) => break,
                                Ok(Err(_)) => {
                                    c.count("recoveries_that_ran_out_of_input");
                                    if it.get_ref().exhausted() {
                                        gave_up = true;
                                        break;
                                    }
                                }
                                Err(_) => {
                                    gave_up = true;
                                    break;
                                }
                            }
                        }
                        if gave_up {
                            break;
                        }
                    }
                }
            }
            c.eval();
            c.count("tolerant_parses_with_recovery");
            if let Some((what, msg)) = problem {
                c.violation(
                    format!("C13/tolerated-kind-after-recovery/{}/allow{}", what, allow),
                    msg.clone(),
                    inp.to_json().set("damaged_bytes", J::hex(&bytes)).set("junk_at", J::u(at)).set("junk_len", J::u(jl)).set("temporary_eof_at", J::u(blip)).set("config", cfg.to_json()).set("errors_seen", J::Arr(log.iter().map(|x| J::s(x.clone())).collect())).set("problem", J::s(msg)),
                );
            }
        }
    }
    // ---------------------------------------------------------------- (b) (e): tolerant parses extend the strict one
    {
        let mut m = Mix::ALL;
        m.middoc = 0;
        m.random = 2;
        let inp = gen_input(&mut c.rng, c.tier, &m);
        inp.spec.install();
        // must start at a root element
        let first_root = match crate::refcodec::dec_id(&inp.bytes) {
            crate::refcodec::Dec::Ok(id, _) => inp.spec.get(id).map(|e| e.is_root()).unwrap_or(false),
            _ => false,
        };
        if first_root {
            let limit = *c.rng.pick(&[100usize, 4096, 1 << 16, 1 << 20]);
            let mk = |allow: u8| RCfg { allow, buffered: vec![], capacity: None, max_size: MaxSz::Set(Some(limit)), eof_end: true };
            let strict = parse_slice(&inp.bytes, &mk(0));
            c.eval();
            if !matches!(strict.end, Ev::Caught(_)) {
                for allow in 1u8..8 {
                    let cfg = mk(allow);
                    let t = parse_slice(&inp.bytes, &cfg);
                    c.eval();
                    c.count("prefix_comparisons");
                    let wit = |msg: &str| inp.to_json().set("tolerated_set", J::u(allow)).set("size_limit", J::u(limit)).set("strict", strict.to_json(60)).set("tolerant", t.to_json(60)).set("problem", J::s(msg));
                    if let Ev::Caught(cg) = &t.end {
                        c.violation(format!("C13/tolerant-{}/allow{}", cg.sig(), allow), cg.text(), wit("panic/hang"));
                        continue;
                    }
                    let is_prefix = strict.items.len() <= t.items.len() && strict.items[..] == t.items[..strict.items.len()];
                    if !is_prefix {
                        let k = strict.items.iter().zip(t.items.iter()).position(|(a, b)| a != b).unwrap_or(t.items.len());
                        c.violation(
                            format!("C13/strict-not-prefix/allow{}/{}", allow, inp.kind.split('/').next().unwrap_or("")),
                            format!("strict item {} is {} but tolerating set {} gives {}", k, strict.items.get(k).map(|x| format!("{}@{}", x.0.short(), x.1)).unwrap_or_default(), allow, t.items.get(k).map(|x| format!("{}@{}", x.0.short(), x.1)).unwrap_or("<none>".into())),
                            wit("strict Ok items are not a prefix of the tolerant parse"),
                        );
                    }
                    if let Ev::Err(e) = &t.end {
                        c.count(&format!("tolerant_end_{}", e.kind()));
                        for (_, kind, bit) in KIND_OF_CLASS.iter() {
                            if *bit != 0 && allow & bit != 0 && e.kind() == *kind {
                                c.violation(format!("C13/tolerated-kind-still-reported/{}/allow{}", kind, allow), format!("{} reported although it is tolerated: {}", kind, e.short()), wit("tolerated error kind occurred"));
                            }
                        }
                    }
                    if allow & ALLOW_IDS == 0 && t.items.iter().any(|(i, _)| i.is_raw()) {
                        c.violation(format!("C13/raw-tag-without-tolerance/allow{}", allow), "raw tag emitted although unknown ids are not tolerated", wit("raw tag"));
                    }
                }
                if strict.items.len() >= 2 {
                    c.nontrivial(mix(hash_str(inp.kind.split('/').next().unwrap_or("")), hash_str(match &strict.end { Ev::Err(e) => e.kind(), _ => "clean" })));
                }
            }
        } else {
            c.count("vacuous_not_from_root");
        }
    }
    let _ = (flat(&[]), SizeOpt::Default);
}
