//! C20 — the async iterator yields what the blocking iterator yields, for every poll schedule.

use super::inputs::*;
use crate::io::{ScriptedAsyncRead, ScriptedRead};
use crate::json::J;
use crate::obs::{guard, Caught};
use crate::prng::{hash_str, mix};
use crate::rd::{parse_slice, ErrRec, Ev, MaxSz, RCfg};
use crate::runner::{Case, PropDef, Tier};
use crate::spec::{DVal, DynTag, Item};
use ebml_iterable::nonblocking::TagIteratorAsync;
use ebml_iterable::specs::Master;
use futures::StreamExt;

pub static DEF: PropDef = PropDef {
    id: "C20",
    level: "exploration",
    rule: "each case: one input (valid / truncated / mid-document / ids swapped for other known or unknown ids — size fields and alignment are never corrupted, see assumptions; occasionally 64 KiB-1, 64 KiB, 64 KiB+1 and ~200 KiB long to cross the transfer buffer, and window-edge documents: a few small items, then one big element ending at 65536*k-2 .. 65536*k+1 for k = 1..5, inside known- or unknown-size masters that may be buffered) x buffered-master subset x async delivery schedules driven on a single-threaded executor: everything at once, two halves, k bytes per read, 1 byte per read, random partitions, ALL 2^(n-1) partitions for inputs of <= 8 (quick) / <= 10 (thorough) bytes, each with Poll::Pending (self-waking) every k-th poll. TagIteratorAsync::next() is awaited until None (then 3 more times: must stay None); item values and last_emitted_tag_offset() after every item are compared with the blocking TagIterator over the same bytes, the final error too; the Stream adapter (into_stream) is collected and compared as well. Every 500th case is a default-limit probe: a master declaring a size around 4*10^9 / 2^32 (5-8 byte size field) must be accepted or rejected by the adapter exactly as by the blocking iterator. A schedule is classified 'starved' by replaying it against the real blocking iterator through a gated source (one delivery, then one next(), exactly like the adapter): starved iff the iterator sees end-of-file (Ok(0)) while data is still outstanding; divergences on starved schedules carry the single signature C20/starved-read (known limitation of the adapter), divergences on non-starved schedules get specific signatures. distinct = (schedule class, whether a read boundary splits a tag, pending pattern, buffered?); non-trivial iff the schedule has >= 2 reads.",
    assumptions: &["byte-level mutations are not used: the adapter cannot change the 4 GB default limit and a misaligned parse could legitimately allocate gigabytes per worker", "inputs whose limited pre-screen (16 MiB) reports InvalidTagSize are skipped: the adapter cannot change the 4 GB default limit and a legitimate GB allocation per worker would exhaust the box", "zero-length reads in the middle of the data are not injected: Ok(0) means end of stream for an AsyncRead"],
    cases_quick: 60_000,
    cases_thorough: 800_000,
    floors: &[("schedules_compared", 20_000), ("non_starved_schedules", 8_000), ("stream_adapter_runs", 3_000), ("distinct_nontrivial", 60), ("exhaustive_partition_inputs", 20), ("inputs_over_64k", 3), ("default_limit_probes", 20), ("async_io_fault_probes", 300), ("after_error_probes", 100)],
    exhaustive_note: Some("all 2^(n-1) partitions of inputs of <= 8 (quick) / <= 10 (thorough) bytes"),
    run,
};

struct AsyncRun {
    items: Vec<(Item, usize)>,
    end: Ev,
    /// bytes returned by the k-th read (one read per next() call)
    reads: Vec<usize>,
    none_sticky: bool,
    pendings: usize,
}

fn buffered_tags(ids: &[u64]) -> Vec<DynTag> {
    ids.iter().map(|id| DynTag { id: *id, val: DVal::M(Master::Start) }).collect()
}

fn run_async(bytes: &[u8], chunks: Vec<usize>, tail: usize, pending_every: usize, buffered: &[u64]) -> AsyncRun {
    run_async_opt(bytes, chunks, tail, pending_every, buffered, false)
}

/// `abandon`: a consumer that never waits — every `next()` future is polled once (`now_or_never`) and dropped when the
/// source answered Pending (what `select!` or a timeout does), then `next()` is called afresh. The scripted source hands
/// out nothing with a Pending, so the bytes and the read sequence are those of the patient consumer.
fn run_async_opt(bytes: &[u8], chunks: Vec<usize>, tail: usize, pending_every: usize, buffered: &[u64], abandon: bool) -> AsyncRun {
    use futures::FutureExt;
    let src = ScriptedAsyncRead::new(ScriptedRead::new(bytes.to_vec()).with_chunks(chunks, tail), pending_every);
    let tags = buffered_tags(buffered);
    let mut it: TagIteratorAsync<ScriptedAsyncRead, DynTag> = TagIteratorAsync::new(src, &tags);
    let mut items = Vec::new();
    let mut end = Ev::None;
    let cap = 4 * bytes.len() + 64;
    let mut none_sticky = true;
    let mut abandoned = 0usize;
    crate::io::ASYNC_READ_LOG.with(|l| l.borrow_mut().clear());
    let r = guard(1 << 26, || {
        loop {
            let step = if abandon { it.next().now_or_never() } else { Some(futures::executor::block_on(it.next())) };
            match step {
                None => {
                    abandoned += 1;
                    if abandoned > 8 * cap {
                        end = Ev::Caught(Caught::Hang("more abandoned polls than 8*(4*len+64)".into()));
                        return;
                    }
                }
                Some(None) => break,
                Some(Some(Ok(t))) => {
                    items.push((Item::from_tag(&t), it.last_emitted_tag_offset()));
                    if items.len() > cap {
                        end = Ev::Caught(Caught::Hang("more items than 4*len+64".into()));
                        return;
                    }
                }
                Some(Some(Err(e))) => {
                    end = Ev::Err(ErrRec::from(&e));
                    return;
                }
            }
        }
        for _ in 0..3 {
            if futures::executor::block_on(it.next()).is_some() {
                none_sticky = false;
            }
        }
    });
    if let Err(cg) = r {
        end = Ev::Caught(cg);
    }
    // what the adapter really asked for and got, read by read (its transfer buffer is its own business: 64 KiB today)
    let reads = crate::io::ASYNC_READ_LOG.with(|l| std::mem::take(&mut *l.borrow_mut()));
    AsyncRun { items, end, reads, none_sticky, pendings: abandoned }
}

/// bytes delivered by successive reads for a schedule (deterministic replica of ScriptedRead's chunking, 64 KiB transfer buffer)
fn schedule_reads(len: usize, chunks: &[usize], tail: usize) -> Vec<usize> {
    schedule_reads_from(len, chunks, tail, 0, 0, 65536)
}

/// the same, continuing behind `pos` bytes delivered by `i` reads, with at most `cap` bytes per read
fn schedule_reads_from(len: usize, chunks: &[usize], tail: usize, mut pos: usize, mut i: usize, cap: usize) -> Vec<usize> {
    let mut v = Vec::new();
    while pos < len {
        let want = if i < chunks.len() { chunks[i] } else { tail };
        let n = want.min(cap).min(len - pos).max(1.min(len - pos));
        v.push(n);
        pos += n;
        i += 1;
    }
    v
}

/// A blocking source that only hands out the bytes an async producer would have delivered so far and records
/// whether the consumer ever saw end-of-file (Ok(0)) before the producer was done ("starved").
struct GatedRead {
    data: Vec<u8>,
    pos: usize,
    avail: std::rc::Rc<std::cell::Cell<usize>>,
    premature_eof: std::rc::Rc<std::cell::Cell<bool>>,
}

impl std::io::Read for GatedRead {
    fn read(&mut self, buf: &mut [u8]) -> std::io::Result<usize> {
        let avail = self.avail.get().min(self.data.len());
        let n = (avail - self.pos).min(buf.len());
        if n == 0 && !buf.is_empty() && avail < self.data.len() {
            self.premature_eof.set(true);
        }
        buf[..n].copy_from_slice(&self.data[self.pos..self.pos + n]);
        self.pos += n;
        Ok(n)
    }
}

/// Replays the delivery schedule against the real blocking iterator (one delivery, then one next(), like the adapter):
/// returns true iff the iterator saw an end-of-file while data was still outstanding.
fn starved_by_simulation(bytes: &[u8], reads: &[usize], buffered: &[u64]) -> bool {
    let avail = std::rc::Rc::new(std::cell::Cell::new(0usize));
    let pe = std::rc::Rc::new(std::cell::Cell::new(false));
    let src = GatedRead { data: bytes.to_vec(), pos: 0, avail: avail.clone(), premature_eof: pe.clone() };
    let tags = buffered_tags(buffered);
    let mut it: ebml_iterable::TagIterator<GatedRead, DynTag> = ebml_iterable::TagIterator::new(src, &tags);
    let cap = 4 * bytes.len() + 64;
    let r = guard(1 << 26, || {
        let mut k = 0;
        loop {
            if k < reads.len() {
                avail.set(avail.get() + reads[k]);
            }
            k += 1;
            match it.next() {
                None => break,
                Some(Err(_)) => break,
                Some(Ok(_)) => {}
            }
            if k > cap {
                break;
            }
        }
    });
    r.is_err() || pe.get()
}

/// The item sequence does not stop at an error: the blocking iterator steps over an element whose payload does not decode
/// (its header is intact) and goes on, so the adapter — through `next()` and through the stream — has to hand out the same
/// sequence of items *and errors*. A small valid document gets one byte of a Utf8 payload replaced by 0xFF (sizes and
/// alignment stay intact) and arrives with the first read; all three consumers are driven until `None`.
fn run_after_error_probe(c: &mut Case) {
    let mut m = Mix::MOSTLY_VALID;
    m.small = c.rng.chance(1, 2);
    m.mutated = 0;
    m.truncated = 0;
    m.middoc = 0;
    let inp = gen_input(&mut c.rng, c.tier, &m);
    inp.spec.install();
    let texts: Vec<&crate::refcodec::Lay> = inp.lay.iter().filter(|l| !l.is_master && l.end > l.data_start && inp.spec.get(l.id).map(|e| e.ty == crate::spec::Ty::S).unwrap_or(false)).collect();
    if texts.is_empty() || inp.bytes.len() > 60_000 {
        c.count("vacuous_after_error_no_text_element");
        return;
    }
    let l = *c.rng.pick(&texts);
    let mut bytes = inp.bytes.clone();
    bytes[c.rng.urange(l.data_start, l.end - 1)] = 0xFF;
    let cap = 2 * inp.lay.len() + 24;
    // blocking reference: every result until None
    let mut it = crate::rd::make_iter(&bytes[..], &RCfg { allow: 0, buffered: vec![], capacity: None, max_size: MaxSz::Default, eof_end: true });
    let mut want: Vec<String> = Vec::new();
    for _ in 0..cap {
        match crate::rd::next_ev(&mut it, crate::rd::step_budget(bytes.len(), want.len())) {
            Ev::Item(i, o) => want.push(format!("{}@{}", i.short(), o)),
            Ev::Err(e) => want.push(format!("Err({})", e.short())),
            Ev::None => break,
            Ev::Caught(_) => {
                c.count("vacuous_after_error_blocking_caught");
                return;
            }
        }
    }
    if !want.iter().any(|x| x.starts_with("Err(")) || want.len() >= cap {
        c.count("vacuous_after_error_no_error_or_endless");
        return;
    }
    let drive = |stream: bool| -> Result<Vec<String>, Caught> {
        let src = ScriptedAsyncRead::new(ScriptedRead::new(bytes.clone()), 0);
        let mut it: TagIteratorAsync<ScriptedAsyncRead, DynTag> = TagIteratorAsync::new(src, &[]);
        guard(1 << 26, || {
            futures::executor::block_on(async {
                let mut got = Vec::new();
                if stream {
                    let s = it.into_stream();
                    futures::pin_mut!(s);
                    while let Some(x) = s.next().await {
                        got.push(match x { Ok(t) => Item::from_tag(&t).short(), Err(e) => format!("Err({})", ErrRec::from(&e).short()) });
                        if got.len() >= cap {
                            break;
                        }
                    }
                } else {
                    while let Some(x) = it.next().await {
                        got.push(match x { Ok(t) => format!("{}@{}", Item::from_tag(&t).short(), it.last_emitted_tag_offset()), Err(e) => format!("Err({})", ErrRec::from(&e).short()) });
                        if got.len() >= cap {
                            break;
                        }
                    }
                }
                got
            })
        })
    };
    c.eval();
    c.count("after_error_probes");
    for (name, stream) in [("next", false), ("stream", true)] {
        let want_cmp: Vec<String> = if stream { want.iter().map(|x| if x.starts_with("Err(") { x.clone() } else { x.rsplitn(2, '@').last().unwrap_or(x).to_string() }).collect() } else { want.clone() };
        match drive(stream) {
            Err(cg) => c.violation(format!("C20/after-error/{}-{}", name, cg.sig()), cg.text(), inp.to_json().set("corrupted_bytes", J::hex(&bytes))),
            Ok(got) if got != want_cmp => {
                let k = got.iter().zip(want_cmp.iter()).position(|(a, b)| a != b).unwrap_or(got.len().min(want_cmp.len()));
                c.violation(
                    format!("C20/after-error/{}-differs", name),
                    format!("with an undecodable text payload the blocking iterator yields {} results, the adapter's {} {}; first difference at result {}: {} vs {}", want_cmp.len(), name, got.len(), k, got.get(k).cloned().unwrap_or("<none>".into()), want_cmp.get(k).cloned().unwrap_or("<none>".into())),
                    inp.to_json().set("corrupted_bytes", J::hex(&bytes)).set("blocking", J::Arr(want_cmp.iter().take(40).map(|x| J::s(x.clone())).collect())).set("adapter", J::Arr(got.iter().take(40).map(|x| J::s(x.clone())).collect())),
                );
            }
            Ok(_) => {}
        }
    }
    c.nontrivial(mix(hash_str("after-error"), want.len().min(8) as u64));
}

/// The adapter must apply the same default size limit as the blocking iterator: masters (no allocation involved)
/// declaring sizes around 4*10^9 and 2^32, delivered at once.
fn run_limit_probe(c: &mut Case) {
    let spec = crate::gen::z_kitchen(false);
    spec.install();
    let w = c.rng.urange(5, 8);
    let v: u64 = *c.rng.pick(&[3_999_999_999u64, 4_000_000_000, 4_000_000_001, 4_100_000_000, 4_294_967_295, 4_294_967_296, 4_294_967_297, 5_000_000_000]);
    let mut bytes = crate::refcodec::id_bytes(0x18538067);
    bytes.extend(crate::refcodec::enc_vint(v, w));
    bytes.extend([0xEC, 0x82, 0x01, 0x02]);
    let base = parse_slice(&bytes, &RCfg { allow: 0, buffered: vec![], capacity: None, max_size: MaxSz::Default, eof_end: true });
    let ar = run_async(&bytes, vec![], usize::MAX, 0, &[]);
    c.eval();
    c.count("default_limit_probes");
    if ar.items != base.items || ar.end != base.end {
        c.violation(
            format!("C20/default-limit-differs/{}", if v > 4_000_000_000 { "above-limit" } else { "within-limit" }),
            format!("master declaring {} bytes: blocking iterator ends {} after {} items, async iterator ends {} after {} items", v, base.end.short(), base.items.len(), ar.end.short(), ar.items.len()),
            J::obj().set("bytes", J::hex(&bytes)).set("declared_size", J::u(v)).set("blocking", base.to_json(8)).set("async_items", J::Arr(ar.items.iter().map(|(i, o)| J::s(format!("{}@{}", i.short(), o))).collect())).set("async_end", J::s(ar.end.short())),
        );
    }
    c.nontrivial(mix(hash_str("limit-probe"), v));
}

/// A failing asynchronous source: the whole (small) input arrives with the first read, the k-th read (k >= 1) fails with a
/// unique error. The blocking iterator over the same bytes gives the reference items; the adapter performs one read per
/// `next()`, so it must hand out the first k of them and then the source's error as `ReadError` carrying it (C05's clause,
/// for the adapter) — an adapter that swallows the error, ends quietly or loses items breaks "the item sequence of the
/// blocking iterator over the same bytes".  Kinds a reader may legitimately retry (Interrupted, WouldBlock) are not used.
fn run_io_fault_probe(c: &mut Case) {
    let mut m = Mix::MOSTLY_VALID;
    m.small = true;
    m.mutated = 0;
    let inp = gen_input(&mut c.rng, c.tier, &m);
    inp.spec.install();
    if inp.bytes.len() > 60_000 {
        c.count("vacuous_io_fault_input_too_long");
        return;
    }
    let base = parse_slice(&inp.bytes, &RCfg { allow: 0, buffered: vec![], capacity: None, max_size: MaxSz::Default, eof_end: true });
    if base.items.len() < 2 {
        c.count("vacuous_io_fault_too_few_items");
        return;
    }
    let k = c.rng.urange(1, base.items.len() - 1);
    let kind = *c.rng.pick(&[std::io::ErrorKind::Other, std::io::ErrorKind::TimedOut, std::io::ErrorKind::ConnectionReset, std::io::ErrorKind::BrokenPipe, std::io::ErrorKind::PermissionDenied, std::io::ErrorKind::UnexpectedEof]);
    let msg = format!("verif-async-io-#{}-{}", k, c.rng.below(1 << 30));
    let pending_every = *c.rng.pick(&[0usize, 0, 2, 3]);
    let src = ScriptedAsyncRead::new(ScriptedRead::new(inp.bytes.clone()).with_fault(k, kind, msg.clone()), pending_every);
    let mut it: TagIteratorAsync<ScriptedAsyncRead, DynTag> = TagIteratorAsync::new(src, &[]);
    let mut items = Vec::new();
    let mut end = Ev::None;
    crate::io::ASYNC_READ_LOG.with(|l| l.borrow_mut().clear());
    let r = guard(1 << 26, || {
        futures::executor::block_on(async {
            for _ in 0..(2 * base.items.len() + 8) {
                match it.next().await {
                    None => break,
                    Some(Ok(t)) => items.push((Item::from_tag(&t), it.last_emitted_tag_offset())),
                    Some(Err(e)) => {
                        end = Ev::Err(ErrRec::from(&e));
                        break;
                    }
                }
            }
        })
    });
    if let Err(cg) = r {
        end = Ev::Caught(cg);
    }
    c.eval();
    c.count("async_io_fault_probes");
    let want = ErrRec::Read { kind: format!("{:?}", kind), msg: msg.clone() };
    // How many reads an adapter makes per next() and when it reports a failed one is its own business (a repaired adapter
    // may read several times per tag, or hand out what it has before it reports the error). What the statement leaves no
    // room for: items that are not a prefix of the blocking parse, an error other than the source's, or a quiet end
    // although the failing read was made.
    let reads_made = crate::io::ASYNC_READ_LOG.with(|l| l.borrow().len());
    let is_prefix = items.len() <= base.items.len() && items[..] == base.items[..items.len()];
    let what = if let Ev::Caught(cg) = &end {
        Some(format!("{}", cg.sig()))
    } else if !is_prefix {
        Some("items-before-the-error-differ".to_string())
    } else if end == Ev::Err(want.clone()) {
        None
    } else if end == Ev::None && reads_made <= k && items.len() == base.items.len() {
        // the failing read was never made: the document was complete before
        c.count("async_io_fault_not_reached");
        None
    } else {
        Some(format!("error-not-surfaced/{}", match &end { Ev::Err(e) => e.kind().to_string(), Ev::None => "ended-quietly".into(), _ => "?".into() }))
    };
    if let Some(w) = what {
        c.violation(
            format!("C20/io-fault/{}", w),
            format!("source fails at read #{} with {:?} ({}): the adapter yielded {} items and ended {}; the blocking iterator yields {} items over these bytes", k, kind, msg, items.len(), end.short(), base.items.len()),
            inp.to_json().set("fault_at_read", J::u(k as u64)).set("blocking", base.to_json(12)).set("async_items", J::Arr(items.iter().map(|(i, o)| J::s(format!("{}@{}", i.short(), o))).collect())).set("async_end", J::s(end.short())),
        );
    }
    c.nontrivial(mix(hash_str("io-fault"), mix(k.min(6) as u64, pending_every as u64)));
}

/// Documents laid out against the 64 KiB transfer buffer: a few small items, then one big Binary element whose end
/// (or, for a trailing unknown-size master, the end of the input) falls on 65536*k + d for small k and d in -2..=1.
/// Whether a schedule is starved is still decided by the gated replay with nominal 64 KiB reads; these documents only
/// make the window edges common.
fn gen_window_doc(rng: &mut crate::prng::Rng) -> Input {
    use crate::refcodec::{enc_tree, to_rnodes, Node, SizeOpt};
    let spec = crate::gen::z_test();
    const EBML: u64 = 0x1a45dfa3;
    const SEG: u64 = 0x18538067;
    const CLU: u64 = 0x1F43B675;
    let k = rng.urange(1, 5);
    let d: i64 = *rng.pick(&[-2i64, -1, -1, 0, 0, 1]);
    let target = (65536 * k) as i64 + d;
    let marker: Vec<u8> = vec![0x5A; 8];
    let build = |big: usize, rng_choices: &(usize, bool, bool, usize)| -> Vec<Node> {
        let (n_prefix, seg_unknown, clu_unknown, n_small) = *rng_choices;
        let mut roots: Vec<Node> = (0..n_prefix).map(|_| Node::master(EBML, vec![])).collect();
        let mut clu_children: Vec<Node> = (0..n_small).map(|i| Node::leaf(Item::U(0x4100, i as u64))).collect();
        let mut payload = marker.clone();
        payload.resize(big.max(8), 0x33);
        clu_children.push(Node::leaf(Item::B(0xa1, payload)));
        let mut clu = Node::master(CLU, clu_children);
        if clu_unknown {
            clu.opt = SizeOpt::Unknown;
        }
        let mut seg = Node::master(SEG, vec![Node::leaf(Item::U(0x83, 1)), clu]);
        if seg_unknown {
            seg.opt = SizeOpt::Unknown;
        }
        roots.push(seg);
        roots
    };
    let choices = (rng.urange(0, 2), rng.chance(1, 2), rng.chance(1, 3), rng.urange(0, 3));
    // two rounds: the size-field width of the big element may change once
    let mut big = 1000usize;
    let mut out = (Vec::new(), Vec::new(), Vec::new());
    for _ in 0..3 {
        let tree = build(big, &choices);
        let (bytes, lay) = enc_tree(&to_rnodes(&tree));
        let end = lay.iter().find(|l| l.id == 0xa1).map(|l| l.end as i64).unwrap_or(0);
        let delta = target - end;
        out = (bytes, lay, tree);
        if delta == 0 {
            break;
        }
        big = (big as i64 + delta).max(8) as usize;
    }
    Input { spec, tree: out.2, bytes: out.0, lay: out.1, kind: format!("window-edge/k{}{:+}", k, d), valid: true, mutations: vec![] }
}

fn run(c: &mut Case) {
    if c.idx % 500 == 77 {
        run_limit_probe(c);
        return;
    }
    if c.idx % 40 == 13 {
        run_io_fault_probe(c);
        return;
    }
    if c.idx % 40 == 27 {
        run_after_error_probe(c);
        return;
    }
    let big = c.rng.chance(1, 400) || (c.tier == Tier::Thorough && c.rng.chance(1, 2000));
    let mut m = Mix::MOSTLY_VALID;
    m.small = c.rng.chance(1, 2);
    // no byte-level mutations here: the adapter cannot lower the 4 GB default limit, and a misaligned parse (payload
    // bytes read as headers) may then legitimately allocate gigabytes. Corruption is limited to id swaps, which keep
    // every size field and the alignment intact; truncation and mid-document starts come from the input mix.
    m.mutated = 0;
    let mut inp = gen_input(&mut c.rng, c.tier, &m);
    inp.spec.install();
    if inp.valid && c.rng.chance(1, 4) {
        let n = c.rng.urange(1, 2);
        let (b, k) = crate::mutate::mutate_ids_only(&mut c.rng, &inp.spec, &inp.bytes, &inp.lay, n);
        inp.bytes = b;
        inp.mutations = k;
        inp.kind = "id-mutated".into();
        inp.valid = false;
    }
    let window = !big && (c.rng.chance(1, 300) || (c.tier == Tier::Thorough && c.rng.chance(1, 1500)));
    if window {
        inp = gen_window_doc(&mut c.rng);
        inp.spec.install();
        c.count("inputs_over_64k");
        c.count("window_edge_inputs");
    }
    if big {
        // grow a valid document past the 64 KiB transfer buffer by appending Void elements at root level... simpler: repeat the document
        let target = *c.rng.pick(&[65535usize, 65536, 65537, 200 * 1024]);
        let unit = gen_valid(&mut c.rng, c.tier, &Mix { small: false, ..Mix::MOSTLY_VALID });
        unit.spec.install();
        let mut b = Vec::new();
        while b.len() < target && !unit.bytes.is_empty() {
            b.extend_from_slice(&unit.bytes);
        }
        // pad to the exact target with a root-level Void element when possible (needs >= 3 bytes)
        inp = unit;
        b.truncate(target);
        inp.bytes = b;
        inp.kind = format!("repeated-to-{}", target);
        inp.lay = vec![];
        c.count("inputs_over_64k");
    }
    let tiny_limit = c.tier.pick(8usize, 10);
    let tiny = !big && c.rng.chance(1, 8);
    if tiny && inp.bytes.len() > tiny_limit {
        let n = c.rng.urange(2, tiny_limit);
        inp.bytes.truncate(n);
        inp.kind = format!("{}+cut-to-{}", inp.kind, n);
    }
    let bytes = inp.bytes.clone();
    let len = bytes.len();
    if len == 0 {
        return;
    }
    let masters = inp.spec.masters();
    let buffered: Vec<u64> = match c.rng.below(4) {
        0 => vec![*c.rng.pick(&masters)],
        1 => masters.iter().filter(|_| c.rng.chance(1, 3)).copied().collect(),
        _ => vec![],
    };
    // pre-screen: no oversized declarations (see assumptions)
    let screen = parse_slice(&bytes, &RCfg { allow: 0, buffered: buffered.clone(), capacity: None, max_size: MaxSz::Set(Some(16 << 20)), eof_end: true });
    if matches!(&screen.end, Ev::Err(ErrRec::InvalidTagSize { .. })) || matches!(screen.end, Ev::Caught(_)) {
        c.count("vacuous_prescreen");
        return;
    }
    let base = parse_slice(&bytes, &RCfg { allow: 0, buffered: buffered.clone(), capacity: None, max_size: MaxSz::Default, eof_end: true });
    c.eval();

    // ---- schedules
    let mut scheds: Vec<(&'static str, Vec<usize>, usize)> = vec![("all-at-once", vec![], usize::MAX), ("two-halves", vec![len / 2 + 1], usize::MAX)];
    let k = c.rng.urange(2, 64);
    scheds.push(("k-bytes", vec![], k));
    if len <= 4000 {
        scheds.push(("1-byte", vec![], 1));
    }
    let n = c.rng.urange(1, 30);
    scheds.push(("random", (0..n).map(|_| c.rng.urange(1, 40)).collect(), usize::MAX));
    scheds.push(("big-first", vec![(len * 3 / 4).max(1)], c.rng.urange(1, 16)));
    if tiny && len >= 2 && len <= tiny_limit {
        c.count("exhaustive_partition_inputs");
    }
    let mut all_parts: Vec<Vec<usize>> = Vec::new();
    if tiny && len >= 2 && len <= tiny_limit {
        for mask in 0u32..(1u32 << (len - 1)) {
            let mut chunks = Vec::new();
            let mut run = 1;
            for i in 0..len - 1 {
                if mask & (1 << i) != 0 {
                    chunks.push(run);
                    run = 1;
                } else {
                    run += 1;
                }
            }
            chunks.push(run);
            all_parts.push(chunks);
        }
    }
    let mut jobs: Vec<(&'static str, Vec<usize>, usize, usize, bool)> = Vec::new();
    for (name, ch, tail) in scheds {
        let pe = *c.rng.pick(&[0usize, 0, 2, 3, 5]);
        jobs.push((name, ch, tail, pe, pe > 0 && c.rng.chance(1, 2)));
    }
    for ch in all_parts {
        let pe = *c.rng.pick(&[0usize, 0, 0, 2, 3]);
        jobs.push(("partition", ch, usize::MAX, pe, pe > 0));
    }
    let mut starved_reported = false;
    for (name, chunks, tail, pending_every, abandon) in jobs {
        let nominal_reads = schedule_reads(len, &chunks, tail);
        let ar = run_async_opt(&bytes, chunks.clone(), tail, pending_every, &buffered, abandon);
        // the deliveries as they really happened (trailing end-of-stream answers dropped); the nominal 64 KiB schedule
        // is only kept for the evidence classes below
        let mut reads: Vec<usize> = ar.reads.clone();
        while reads.last() == Some(&0) {
            reads.pop();
        }
        // a run that ended early (error, premature None) stopped reading: the rest is delivered as the source would have
        // delivered it, so that "the producer was not done" is never concluded from the adapter's own silence
        let got: usize = reads.iter().sum();
        if got < len {
            let cap = reads.iter().copied().max().unwrap_or(0).max(65536);
            let n_reads = reads.len();
            reads.extend(schedule_reads_from(len, &chunks, tail, got, n_reads, cap));
        }
        if reads != nominal_reads {
            c.count("schedules_where_actual_reads_differ_from_nominal_64k");
        }
        if abandon {
            c.count("schedules_with_abandoned_polls");
            c.add("abandoned_polls", ar.pendings as u64);
        }
        c.eval();
        c.count("schedules_compared");
        // starved? (the inner iterator would see end-of-file before the producer has delivered everything)
        let starved = starved_by_simulation(&bytes, &reads, &buffered);
        if !starved {
            c.count("non_starved_schedules");
        } else {
            c.count("starved_schedules");
        }
        let same = ar.items == base.items && ar.end == base.end;
        let wit = |msg: &str| {
            inp.to_json()
                .set("buffered", J::Arr(buffered.iter().map(|i| J::s(format!("{:x}", i))).collect()))
                .set("schedule", J::s(name))
                .set("reads_bytes", J::Arr(reads.iter().take(40).map(|x| J::u(*x)).collect()))
                .set("pending_every", J::u(pending_every))
                .set("pending_polls_abandoned", J::Bool(abandon))
                .set("producer_starved", J::Bool(starved))
                .set("blocking", base.to_json(40))
                .set("async_items", J::Arr(ar.items.iter().take(40).map(|(i, o)| J::s(format!("{}@{}", i.short(), o))).collect()))
                .set("async_end", J::s(ar.end.short()))
                .set("problem", J::s(msg))
        };
        if let Ev::Caught(cg) = &ar.end {
            c.violation(format!("C20/async-{}/{}", cg.sig(), if starved { "starved" } else { "non-starved" }), cg.text(), wit("panic/hang in the async iterator"));
            continue;
        }
        if !same {
            if starved {
                if !starved_reported {
                    starved_reported = true;
                    c.violation("C20/starved-read", "async iterator diverges from the blocking iterator on a schedule in which the inner iterator sees end-of-file before the producer has delivered everything", wit("starved producer"));
                }
                c.count("starved_divergences");
            } else {
                let k = ar.items.iter().zip(base.items.iter()).position(|(a, b)| a != b).unwrap_or(ar.items.len().min(base.items.len()));
                let what = if k < ar.items.len() && k < base.items.len() { if ar.items[k].0 == base.items[k].0 { "offset-differs" } else { "item-differs" } } else if ar.items.len() < base.items.len() { "async-stops-early" } else if ar.items.len() > base.items.len() { "async-extra-items" } else { "end-differs" };
                c.violation(format!("C20/non-starved/{}/{}/{}", what, name, if buffered.is_empty() { "flat" } else { "buffered" }), format!("schedule {}: async and blocking differ at item {} (async end {}, blocking end {})", name, k, ar.end.short(), base.end.short()), wit("divergence although the producer is ahead"));
            }
            continue;
        }
        if !ar.none_sticky {
            c.violation(format!("C20/not-fused/{}", name), "next().await returned Some after None", wit("not fused"));
        }
        if reads.len() >= 2 {
            let splits = inp.lay.iter().any(|l| {
                let mut p = 0;
                reads.iter().any(|r| {
                    p += r;
                    p > l.off && p < l.end
                })
            });
            c.nontrivial(mix(hash_str(name), mix(splits as u64, mix(pending_every as u64, buffered.is_empty() as u64))));
        }
    }
    // ---- stream adapter (fast producer so that it is non-starved)
    {
        let src = ScriptedAsyncRead::new(ScriptedRead::new(bytes.clone()), *c.rng.pick(&[0usize, 2]));
        let tags = buffered_tags(&buffered);
        let it: TagIteratorAsync<ScriptedAsyncRead, DynTag> = TagIteratorAsync::new(src, &tags);
        crate::io::ASYNC_READ_LOG.with(|l| l.borrow_mut().clear());
        let r = guard(1 << 26, || {
            futures::executor::block_on(async {
                let s = it.into_stream();
                futures::pin_mut!(s);
                let mut out: Vec<Result<Item, ErrRec>> = Vec::new();
                while let Some(x) = s.next().await {
                    let stop = x.is_err();
                    out.push(x.map(|t| Item::from_tag(&t)).map_err(|e| ErrRec::from(&e)));
                    if stop || out.len() > 4 * len + 64 {
                        break;
                    }
                }
                out
            })
        });
        c.eval();
        c.count("stream_adapter_runs");
        match r {
            Err(cg) => c.violation(format!("C20/stream-{}", cg.sig()), cg.text(), inp.to_json()),
            Ok(out) => {
                let vals: Vec<Item> = out.iter().filter_map(|x| x.as_ref().ok().cloned()).collect();
                let err = out.iter().find_map(|x| x.as_ref().err().cloned());
                let base_err = match &base.end {
                    Ev::Err(e) => Some(e.clone()),
                    _ => None,
                };
                // everything is on offer from the first read on; whether that starves the adapter depends on how much it
                // takes per read (its transfer buffer is its own business), so the deliveries it really got are replayed
                let mut reads: Vec<usize> = crate::io::ASYNC_READ_LOG.with(|l| std::mem::take(&mut *l.borrow_mut()));
                while reads.last() == Some(&0) {
                    reads.pop();
                }
                let got: usize = reads.iter().sum();
                if got < len {
                    let cap = reads.iter().copied().max().unwrap_or(0).max(65536);
                    let n_reads = reads.len();
                    reads.extend(schedule_reads_from(len, &[], usize::MAX, got, n_reads, cap));
                }
                let differs = vals != base.values() || err != base_err;
                if differs && starved_by_simulation(&bytes, &reads, &buffered) {
                    c.count("stream_adapter_starved_divergences");
                } else if differs {
                    c.violation(
                        format!("C20/stream-adapter-differs/{}", if buffered.is_empty() { "flat" } else { "buffered" }),
                        "items collected from into_stream() differ from the blocking iterator",
                        inp.to_json().set("blocking", base.to_json(40)).set("stream_items", crate::spec::items_json(&vals, 40)).set("stream_error", J::s(format!("{:?}", err.map(|e| e.short())))),
                    );
                }
            }
        }
    }
    if c.idx % 397 == 3 {
        c.set_sample(inp.to_json().set("blocking", base.to_json(12)).set("buffered", J::Arr(buffered.iter().map(|i| J::s(format!("{:x}", i))).collect())));
    }
}
