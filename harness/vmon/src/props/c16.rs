//! C16 — fixed-width payload decoders are total and invert the writer's encodings.

use crate::gen;
use crate::io::ScriptedWrite;
use crate::json::{hex, J};
use crate::obs::guard;
use crate::prng::mix;
use crate::refcodec::{dec_float, dec_id, dec_sint, dec_size, dec_uint, Dec, RSize, SizeOpt};
use crate::runner::{Case, PropDef};
use crate::spec::{Elem, Item, Spec, Ty};
use crate::wr::{run_calls, WCall};
use ebml_iterable::tools;

pub static DEF: PropDef = PropDef {
    id: "C16",
    level: "exploration",
    rule: "decoder side: arr_to_u64 / arr_to_i64 / arr_to_f64 on all slices of length 0..2 (exhaustive), boundary patterns and random slices of length 3..12, every length 13..80 and lengths around powers of two up to 64 KiB, and untouched zero slices of 2^29 and 2^29+8 bytes (2^29-8 .. 2^29+8 and 2^32 .. 2^32+8 in the thorough tier: lengths at which 32-bit length or bit-count arithmetic wraps), compared with the reference big-endian / sign-extending / IEEE-754 decoders; writer side: single-element documents (UnsignedInt, Integer, Float root elements; ids of 1-8 bytes, zero bytes inside the id forced in a third of the cases) written by the real TagWriter for lattice + random 64-bit values, header decoded with the reference decoder, payload width must be the minimal of 1/2/4/8 (8 for floats) and decode back bit-for-bit through the repo's decoders. Distinct-nontrivial = (function, slice length, sign/top-bit class) or (type, payload width, value class).",
    assumptions: &["reference decoders in refcodec.rs are correct", "an empty slice means 0 for both integer decoders, as the property states"],
    cases_quick: 64,
    cases_thorough: 2_048,
    floors: &[("slices_decoded", 20_000), ("values_written", 5_000), ("distinct_nontrivial", 30)],
    exhaustive_note: Some("all byte slices of length 0..2 for the three decoders"),
    run,
};

fn check_giant_slice(c: &mut Case, len: usize) {
    use std::alloc::{GlobalAlloc, Layout, System};
    let layout = Layout::from_size_align(len, 16).unwrap();
    let p = unsafe { System.alloc_zeroed(layout) };
    if p.is_null() {
        c.count("giant_slices_unavailable");
        return;
    }
    let s: &[u8] = unsafe { std::slice::from_raw_parts(p, len) };
    // the error values carry a copy of the slice (never formatted here); for the 4 GiB lengths the allocation
    // ceiling is lifted while the three calls run
    let ceiling = crate::alloc::CEILING.load(std::sync::atomic::Ordering::Relaxed);
    if len as u64 >= ceiling {
        crate::alloc::CEILING.store(len as u64 + (1 << 20), std::sync::atomic::Ordering::Relaxed);
    }
    let results = [
        ("arr_to_u64", guard(1 << 20, || tools::arr_to_u64(s).map(|_| ()).map_err(|_| ()))),
        ("arr_to_i64", guard(1 << 20, || tools::arr_to_i64(s).map(|_| ()).map_err(|_| ()))),
        ("arr_to_f64", guard(1 << 20, || tools::arr_to_f64(s).map(|_| ()).map_err(|_| ()))),
    ];
    crate::alloc::CEILING.store(ceiling, std::sync::atomic::Ordering::Relaxed);
    unsafe { System.dealloc(p, layout) };
    for (name, r) in results {
        c.eval();
        c.count("slices_decoded");
        c.count("giant_slices_decoded");
        match r {
            Err(cg) => c.violation(format!("C16/{}/giant-slice/{}", name, cg.sig()), format!("{}(zero slice of {} bytes) {}", name, len, cg.text()), J::obj().set("slice_len", J::u(len))),
            Ok(Ok(())) => c.violation(format!("C16/{}/giant-slice/accepted", name), format!("{}(zero slice of {} bytes) returned a value; slices longer than 8 bytes must be rejected", name, len), J::obj().set("slice_len", J::u(len))),
            Ok(Err(_)) => {}
        }
    }
    c.nontrivial(mix(0x61a27, len as u64));
}

fn check_slice(c: &mut Case, s: &[u8]) {
    c.eval();
    c.count("slices_decoded");
    let top = s.first().map(|b| b >> 7).unwrap_or(2);
    // unsigned
    let wu = dec_uint(s);
    match guard(1 << 20, || tools::arr_to_u64(s).map_err(|e| format!("{:?}", e))) {
        Err(cg) => c.violation(format!("C16/arr_to_u64/len{}/{}", s.len().min(10), cg.sig()), format!("arr_to_u64({}) {}", hex(s), cg.text()), J::obj().set("slice", J::hex(s))),
        Ok(r) => {
            let ok = match (&r, wu) {
                (Ok(v), Some(w)) => *v == w,
                (Err(_), None) => true,
                _ => false,
            };
            if !ok {
                c.violation(format!("C16/arr_to_u64/len{}", s.len().min(10)), format!("arr_to_u64({}) = {:?}, reference {:?}", hex(s), r, wu), J::obj().set("slice", J::hex(s)).set("got", J::s(format!("{:?}", r))).set("expected", J::s(format!("{:?}", wu))));
            }
        }
    }
    // signed
    let wi = dec_sint(s);
    match guard(1 << 20, || tools::arr_to_i64(s).map_err(|e| format!("{:?}", e))) {
        Err(cg) => c.violation(format!("C16/arr_to_i64/len{}/{}", s.len().min(10), cg.sig()), format!("arr_to_i64({}) {}", hex(s), cg.text()), J::obj().set("slice", J::hex(s))),
        Ok(r) => {
            let ok = match (&r, wi) {
                (Ok(v), Some(w)) => *v == w,
                (Err(_), None) => true,
                _ => false,
            };
            if !ok {
                c.violation(format!("C16/arr_to_i64/len{}/top{}", s.len().min(10), top), format!("arr_to_i64({}) = {:?}, reference {:?}", hex(s), r, wi), J::obj().set("slice", J::hex(s)).set("got", J::s(format!("{:?}", r))).set("expected", J::s(format!("{:?}", wi))));
            }
        }
    }
    // float
    let wf = dec_float(s);
    match guard(1 << 20, || tools::arr_to_f64(s).map(|f| f.to_bits()).map_err(|e| format!("{:?}", e))) {
        Err(cg) => c.violation(format!("C16/arr_to_f64/len{}/{}", s.len().min(10), cg.sig()), format!("arr_to_f64({}) {}", hex(s), cg.text()), J::obj().set("slice", J::hex(s))),
        Ok(r) => {
            let ok = match (&r, wf) {
                (Ok(v), Some(w)) => {
                    // a NaN may be quietened by the f32->f64 conversion on some targets: compare NaN-ness then
                    *v == w || (s.len() == 4 && f64::from_bits(*v).is_nan() && f64::from_bits(w).is_nan())
                }
                (Err(_), None) => true,
                _ => false,
            };
            if !ok {
                c.violation(format!("C16/arr_to_f64/len{}", s.len().min(10)), format!("arr_to_f64({}) = {:x?}, reference {:x?}", hex(s), r, wf), J::obj().set("slice", J::hex(s)).set("got", J::s(format!("{:x?}", r))).set("expected", J::s(format!("{:x?}", wf))));
            }
        }
    }
    c.nontrivial(mix(10, (s.len().min(10) as u64) * 4 + top as u64));
}

fn mini_spec(ids: [u64; 3]) -> Spec {
    Spec {
        name: "C16_MINI".into(),
        elems: vec![
            Elem { id: ids[0], ty: Ty::U, path: vec![], name: "RootU".into() },
            Elem { id: ids[1], ty: Ty::I, path: vec![], name: "RootI".into() },
            Elem { id: ids[2], ty: Ty::F, path: vec![], name: "RootF".into() },
        ],
    }
}

/// three distinct well-formed ids of random byte lengths; zero bytes inside the id are forced now and then
fn pick_ids(rng: &mut crate::prng::Rng) -> [u64; 3] {
    let mut out = [0u64; 3];
    let mut k = 0;
    while k < 3 {
        let len = rng.urange(1, 8);
        let mut id = gen::random_id(rng, len);
        if len >= 2 && rng.chance(1, 3) {
            // zero one of the non-leading bytes
            let byte = rng.urange(0, len - 2);
            id &= !(0xFFu64 << (8 * byte));
            if !crate::spec::ref_id_wellformed(id) {
                continue;
            }
        }
        if out[..k].contains(&id) {
            continue;
        }
        out[k] = id;
        k += 1;
    }
    out
}

fn min_width_u(v: u64) -> usize {
    if v <= 0xFF {
        1
    } else if v <= 0xFFFF {
        2
    } else if v <= 0xFFFF_FFFF {
        4
    } else {
        8
    }
}

fn min_width_i(v: i64) -> usize {
    if v >= i8::MIN as i64 && v <= i8::MAX as i64 {
        1
    } else if v >= i16::MIN as i64 && v <= i16::MAX as i64 {
        2
    } else if v >= i32::MIN as i64 && v <= i32::MAX as i64 {
        4
    } else {
        8
    }
}

fn check_written(c: &mut Case, item: Item, opt: SizeOpt) {
    c.eval();
    c.count("values_written");
    let run = run_calls(&[WCall::Write(item.clone(), opt)], ScriptedWrite::new());
    let kind = match item {
        Item::U(..) => "uint",
        Item::I(..) => "sint",
        _ => "float",
    };
    let wit = |bytes: &[u8], msg: &str| J::obj().set("written", J::s(item.short())).set("option", J::s(format!("{:?}", opt))).set("bytes", J::hex(bytes)).set("problem", J::s(msg));
    if !run.all_ok() {
        let r = run.first_fail().map(|x| x.1.short()).unwrap_or(run.fin.short());
        c.violation(format!("C16/writer-rejects/{}/{}", kind, run.first_fail().map(|x| x.1.kind()).unwrap_or(run.fin.kind())), format!("writing {} failed: {}", item.short(), r), wit(&run.bytes, &r));
        return;
    }
    let b = &run.bytes;
    let (id, il) = match dec_id(b) {
        Dec::Ok(v, l) => (v, l),
        o => {
            c.violation(format!("C16/writer-header/{}", kind), format!("cannot decode id: {:?}", o), wit(b, "id"));
            return;
        }
    };
    let (sz, sl) = match dec_size(&b[il..]) {
        Dec::Ok(RSize::Known(v), l) => (v as usize, l),
        o => {
            c.violation(format!("C16/writer-header/{}", kind), format!("cannot decode size: {:?}", o), wit(b, "size"));
            return;
        }
    };
    if id != item.id() || il + sl + sz != b.len() {
        c.violation(format!("C16/writer-header/{}", kind), format!("id {:x} / lengths {}+{}+{} do not match the {} bytes written", id, il, sl, sz, b.len()), wit(b, "extent"));
        return;
    }
    if let SizeOpt::Width(w) = opt {
        if sl != w {
            c.violation(format!("C16/writer-size-width/{}", kind), format!("size field has {} bytes, requested {}", sl, w), wit(b, "size width"));
        }
    }
    let payload = &b[il + sl..];
    let (want_w, back_ok, class) = match &item {
        Item::U(_, v) => (min_width_u(*v), tools::arr_to_u64(payload).ok() == Some(*v) && dec_uint(payload) == Some(*v), min_width_u(*v) as u64),
        Item::I(_, v) => (min_width_i(*v), tools::arr_to_i64(payload).ok() == Some(*v) && dec_sint(payload) == Some(*v), 16 + min_width_i(*v) as u64 * 2 + (*v < 0) as u64),
        // the statement pins the minimal width for integers only: a float may take 4 or 8 bytes as long as it decodes back bit for bit
        Item::F(_, bits) => (if payload.len() == 4 { 4 } else { 8 }, tools::arr_to_f64(payload).ok().map(|f| f.to_bits()) == Some(*bits) && dec_float(payload) == Some(*bits), 64 + (f64::from_bits(*bits).is_nan() as u64) * 2 + (f64::from_bits(*bits).is_finite() as u64)),
        _ => unreachable!(),
    };
    if payload.len() != want_w {
        c.violation(format!("C16/writer-width/{}/w{}", kind, want_w), format!("{} written with a {}-byte payload, minimal width is {}", item.short(), payload.len(), want_w), wit(b, "payload width not minimal"));
    }
    if !back_ok {
        c.violation(format!("C16/writer-inverse/{}/w{}", kind, payload.len()), format!("{} written as payload {} does not decode back to the same value", item.short(), hex(payload)), wit(b, "decode(payload) != value"));
    }
    c.nontrivial(mix(11, class));
}

fn run(c: &mut Case) {
    let ids = if c.idx % 2 == 0 { [0x4DB1, 0x4DB2, 0x4DB3] } else { pick_ids(&mut c.rng) };
    mini_spec(ids).install();
    let idx = c.idx;
    if idx == 0 {
        check_slice(c, &[]);
        for a in 0..=255u8 {
            check_slice(c, &[a]);
        }
    }
    let total = c.tier.pick(DEF.cases_quick, DEF.cases_thorough);
    for a in 0..=255u64 {
        if a % total.min(256) == idx && idx < 256 {
            for b in 0..=255u8 {
                check_slice(c, &[a as u8, b]);
            }
        }
    }
    // giant slices (lengths at which 32-bit length arithmetic wraps or bit counts overflow): zero pages straight from
    // the system allocator, never touched — every decoder must answer with an error without reading them
    if idx == 0 {
        let mut lens = vec![1usize << 29, (1 << 29) + 8];
        if c.tier == crate::runner::Tier::Thorough {
            lens.extend([(1usize << 29) - 8, (1 << 29) + 1, (1 << 29) + 4]);
            // 32-bit truncation of the length: needs a 4 GiB copy for the error value (see below)
            lens.extend([1usize << 32, (1 << 32) + 1, (1 << 32) + 4, (1 << 32) + 8]);
        }
        for len in lens {
            check_giant_slice(c, len);
        }
    }
    // long slices: every length up to 80 and lengths around powers of two (the property says: every byte slice)
    if idx % 8 == 1 {
        let mut lens: Vec<usize> = (13..=80).collect();
        lens.extend([127usize, 128, 129, 255, 256, 257, 260, 264, 288, 292, 296, 511, 512, 513, 516, 520, 1024, 1028, 1032, 4100, 65536, 65540, 65544]);
        for len in lens {
            let mut sl = c.rng.bytes(len);
            check_slice(c, &sl);
            sl[0] = *c.rng.pick(&[0u8, 0x7F, 0x80, 0xFF]);
            check_slice(c, &sl);
        }
    }
    // boundary patterns + random for 3..9 (and 10, 12)
    for len in [3usize, 4, 5, 6, 7, 8, 9, 10, 12] {
        for first in [0x00u8, 0x01, 0x7F, 0x80, 0x81, 0xFF] {
            for fill in [0x00u8, 0xFF, 0x80, 0x7F] {
                let mut s = vec![fill; len];
                s[0] = first;
                check_slice(c, &s);
            }
        }
        for _ in 0..c.tier.pick(40, 80) {
            let s = c.rng.bytes(len);
            check_slice(c, &s);
        }
    }
    // writer side
    let n = c.tier.pick(400, 800);
    for k in 0..n {
        let opt = if k % 5 == 4 { SizeOpt::Width(c.rng.urange(1, 8)) } else { SizeOpt::Default };
        let u = gen::gen_u64(&mut c.rng);
        check_written(c, Item::U(ids[0], u), opt);
        let i = gen::gen_i64(&mut c.rng);
        check_written(c, Item::I(ids[1], i), opt);
        let f = gen::gen_f64_bits(&mut c.rng);
        check_written(c, Item::F(ids[2], f), opt);
    }
    if idx == 0 {
        // width boundaries, exactly
        for v in [0u64, 0xFF, 0x100, 0xFFFF, 0x1_0000, 0xFFFF_FFFF, 0x1_0000_0000, u64::MAX] {
            check_written(c, Item::U(ids[0], v), SizeOpt::Default);
        }
        for v in [0i64, 127, 128, -128, -129, 32767, 32768, -32768, -32769, i32::MAX as i64, i32::MAX as i64 + 1, i32::MIN as i64, i32::MIN as i64 - 1, i64::MAX, i64::MIN] {
            check_written(c, Item::I(ids[1], v), SizeOpt::Default);
        }
        let run = run_calls(&[WCall::Write(Item::I(ids[1], -129), SizeOpt::Default)], ScriptedWrite::new());
        c.set_sample(J::obj().set("slice_checks", J::Arr(vec![J::s(format!("arr_to_i64([0xff,0x7f]) = {:?} (reference {:?})", tools::arr_to_i64(&[0xff, 0x7f]), dec_sint(&[0xff, 0x7f]))), J::s(format!("arr_to_f64(len 4: 3fc00000) = {:?}", tools::arr_to_f64(&[0x3f, 0xc0, 0, 0])))])).set("writer_check", J::obj().set("written", J::s("Integer -129")).set("bytes", J::hex(&run.bytes))));
    }
}
