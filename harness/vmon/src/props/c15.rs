//! C15 — variable-length integer codec: correct, canonical, total.
//!
//! Oracle: direct comparison of every public function in `ebml_iterable::tools` that deals with vints
//! against the independent reference codec, with `catch_unwind` around every call.

use crate::json::{hex, J};
use crate::obs::guard;
use crate::prng::mix;
use crate::refcodec::{dec_vint, enc_vint, min_vint_width, vint_len, Dec};
use crate::runner::{Case, PropDef, Tier};
use crate::spec::ref_id_wellformed;
use ebml_iterable::tools::{self, SignedVint, Vint};

pub static DEF: PropDef = PropDef {
    id: "C15",
    level: "exploration",
    rule: "each case = one shard of the exhaustive value sweeps (unsigned widths <=3 quick / <=4 thorough, signed widths <=3) + boundary lattice (+-2 around 2^(7k), 2^(7k-1), 2^(7k+1), 2^(8k)) + random 64-bit values + decoder sweeps over byte slices (all slices of length <=2, every first byte x random tails x every truncation for lengths 3..9). A value/slice is counted distinct-nontrivial by (function, width, value-class) fingerprint where value-class = position relative to the nearest width boundary.",
    assumptions: &[
        "reference codec (refcodec.rs) encodes RFC 8794 vints correctly; it shares no code with the repository",
        "the single signed value -2^(7L-1) of each width is a don't-care (may be accepted or rejected; if encoded it must decode back)",
        "signed fixed-width encoder is only exercised for widths 1..8 as the property states",
    ],
    cases_quick: 256,
    cases_thorough: 2_048,
    floors: &[("unsigned_values_checked", 10_000), ("signed_values_checked", 10_000), ("slices_decoded", 50_000), ("distinct_nontrivial", 200)],
    exhaustive_note: Some("unsigned values of width<=3 (quick) / <=4 (thorough); signed values of width<=3; all byte slices of length<=2 for both decoders"),
    run,
};

fn as_vint_len(v: u64, l: usize) -> Result<Vec<u8>, String> {
    let r = match l {
        1 => v.as_vint_with_length::<1>().map(|a| a.to_vec()),
        2 => v.as_vint_with_length::<2>().map(|a| a.to_vec()),
        3 => v.as_vint_with_length::<3>().map(|a| a.to_vec()),
        4 => v.as_vint_with_length::<4>().map(|a| a.to_vec()),
        5 => v.as_vint_with_length::<5>().map(|a| a.to_vec()),
        6 => v.as_vint_with_length::<6>().map(|a| a.to_vec()),
        7 => v.as_vint_with_length::<7>().map(|a| a.to_vec()),
        8 => v.as_vint_with_length::<8>().map(|a| a.to_vec()),
        _ => unreachable!(),
    };
    r.map_err(|e| format!("{:?}", e))
}

fn uclass(v: u64) -> u64 {
    // class = (minimal width, distance class to the boundary)
    let w = min_vint_width(v).unwrap_or(9) as u64;
    let near = if w <= 8 {
        let lo = if w == 1 { 0 } else { 1u64 << (7 * (w - 1)) };
        let hi = if w == 8 { (1u64 << 56) - 1 } else { (1u64 << (7 * w)) - 1 };
        if v - lo <= 2 {
            1 + (v - lo)
        } else if hi - v <= 2 {
            4 + (hi - v)
        } else {
            0
        }
    } else {
        (v >> 60) + 8
    };
    w * 32 + near
}

/// The codec is a trait implemented for u8/u16/u32/u64 and i8/i16/i32/i64: a value has one encoding, whichever type carries it.
fn check_narrow_types(c: &mut Case, v: u64) {
    fn both<T: Vint>(x: T, l: usize) -> (Result<Vec<u8>, String>, Result<Vec<u8>, String>) {
        let a = x.as_vint().map_err(|e| format!("{:?}", e));
        let b = match l {
            1 => x.as_vint_with_length::<1>().map(|a| a.to_vec()),
            2 => x.as_vint_with_length::<2>().map(|a| a.to_vec()),
            3 => x.as_vint_with_length::<3>().map(|a| a.to_vec()),
            5 => x.as_vint_with_length::<5>().map(|a| a.to_vec()),
            _ => x.as_vint_with_length::<8>().map(|a| a.to_vec()),
        }
        .map_err(|e| format!("{:?}", e));
        (a, b)
    }
    let l = [1usize, 2, 3, 5, 8][(v % 5) as usize];
    let wide = guard(1 << 20, || both(v, l));
    let narrow = if v <= u8::MAX as u64 {
        Some(("u8", guard(1 << 20, || both(v as u8, l))))
    } else if v <= u16::MAX as u64 {
        Some(("u16", guard(1 << 20, || both(v as u16, l))))
    } else if v <= u32::MAX as u64 {
        Some(("u32", guard(1 << 20, || both(v as u32, l))))
    } else {
        None
    };
    if let Some((ty, n)) = narrow {
        c.count("narrow_type_comparisons");
        let same = match (&wide, &n) {
            (Ok(a), Ok(b)) => a == b,
            _ => false,
        };
        if !same {
            c.violation(format!("C15/narrow-type-differs/{}", ty), format!("{} encodes differently as {} than as u64 (width {})", v, ty, l), J::obj().set("value", J::u(v)).set("as_u64", J::s(format!("{:?}", wide.as_ref().map_err(|e| e.text())))).set("narrow", J::s(format!("{:?}", n.as_ref().map_err(|e| e.text())))));
        }
    }
}

fn check_narrow_signed(c: &mut Case, v: i64) {
    fn both<T: SignedVint>(x: T, l: usize) -> (Result<Vec<u8>, String>, Result<Vec<u8>, String>) {
        (x.as_signed_vint().map_err(|e| format!("{:?}", e)), x.as_signed_vint_with_length(l).map_err(|e| format!("{:?}", e)))
    }
    let l = 1 + (v.unsigned_abs() % 8) as usize;
    let wide = guard(1 << 20, || both(v, l));
    let narrow = if v >= i8::MIN as i64 && v <= i8::MAX as i64 {
        Some(("i8", guard(1 << 20, || both(v as i8, l))))
    } else if v >= i16::MIN as i64 && v <= i16::MAX as i64 {
        Some(("i16", guard(1 << 20, || both(v as i16, l))))
    } else if v >= i32::MIN as i64 && v <= i32::MAX as i64 {
        Some(("i32", guard(1 << 20, || both(v as i32, l))))
    } else {
        None
    };
    if let Some((ty, n)) = narrow {
        c.count("narrow_type_comparisons");
        let same = match (&wide, &n) {
            (Ok(a), Ok(b)) => a == b,
            (Err(_), Err(_)) => true, // both panic the same way is judged by check_signed on the i64
            _ => false,
        };
        if !same {
            c.violation(format!("C15/narrow-type-differs/{}", ty), format!("{} encodes differently as {} than as i64 (width {})", v, ty, l), J::obj().set("value", J::Int(v)).set("as_i64", J::s(format!("{:?}", wide.as_ref().map_err(|e| e.text())))).set("narrow", J::s(format!("{:?}", n.as_ref().map_err(|e| e.text())))));
        }
    }
}

fn check_unsigned(c: &mut Case, v: u64) {
    c.eval();
    c.count("unsigned_values_checked");
    if v <= u32::MAX as u64 && v % 7 == 0 {
        check_narrow_types(c, v);
    }
    let wit = |what: &str, got: String, want: String| J::obj().set("function", J::s(what)).set("value", J::u(v)).set("value_hex", J::s(format!("{:#x}", v))).set("got", J::s(got)).set("expected", J::s(want));
    // default encoder
    let mw = min_vint_width(v);
    match guard(1 << 20, || v.as_vint().map_err(|e| format!("{:?}", e))) {
        Err(cg) => c.violation(format!("C15/as_vint/{}", cg.sig()), format!("as_vint({}) {}", v, cg.text()), wit("as_vint", cg.text(), "no panic".into())),
        Ok(r) => match (mw, r) {
            (Some(w), Ok(bytes)) => {
                let want = enc_vint(v, w);
                if bytes != want {
                    c.violation(format!("C15/as_vint-shortest/w{}", w), format!("as_vint({}) = {} but the shortest encoding is {}", v, hex(&bytes), hex(&want)), wit("as_vint", hex(&bytes), hex(&want)));
                }
            }
            (Some(w), Err(e)) => c.violation(format!("C15/as_vint-rejects/w{}", w), format!("as_vint({}) failed: {}", v, e), wit("as_vint", e, "Ok".into())),
            (None, Ok(bytes)) => c.violation("C15/as_vint-accepts-too-big", format!("as_vint({}) = {} although the value needs more than 56 bits", v, hex(&bytes)), wit("as_vint", hex(&bytes), "Err".into())),
            (None, Err(_)) => {}
        },
    }
    // fixed width encoder + decoder round trip
    for l in 1..=8usize {
        let fits = v < (1u64 << (7 * l));
        match guard(1 << 20, || as_vint_len(v, l)) {
            Err(cg) => c.violation(format!("C15/as_vint_with_length/{}", cg.sig()), format!("as_vint_with_length::<{}>({}) {}", l, v, cg.text()), wit("as_vint_with_length", cg.text(), "no panic".into())),
            Ok(Ok(bytes)) => {
                if !fits {
                    c.violation(format!("C15/as_vint_with_length-no-overflow/w{}", l), format!("as_vint_with_length::<{}>({}) = {} but the value needs more bits", l, v, hex(&bytes)), wit("as_vint_with_length", hex(&bytes), "overflow error".into()));
                    continue;
                }
                let want = enc_vint(v, l);
                if bytes != want {
                    c.violation(format!("C15/as_vint_with_length-bytes/w{}", l), format!("as_vint_with_length::<{}>({}) = {} expected {}", l, v, hex(&bytes), hex(&want)), wit("as_vint_with_length", hex(&bytes), hex(&want)));
                    continue;
                }
                match guard(1 << 20, || tools::read_vint(&bytes).map_err(|e| format!("{:?}", e))) {
                    Ok(Ok(Some((dv, dl)))) if dv == v && dl == l => {}
                    other => c.violation(format!("C15/read_vint-roundtrip/w{}", l), format!("read_vint({}) = {:?}, expected ({}, {})", hex(&bytes), other, v, l), wit("read_vint", format!("{:?}", other), format!("({},{})", v, l))),
                }
            }
            Ok(Err(e)) => {
                if fits {
                    c.violation(format!("C15/as_vint_with_length-spurious-overflow/w{}", l), format!("as_vint_with_length::<{}>({}) failed ({}) although the value fits", l, v, e), wit("as_vint_with_length", e, "Ok".into()));
                }
            }
        }
    }
    let cl = uclass(v);
    if cl % 32 != 0 {
        c.nontrivial(mix(1, cl));
    }
}

fn sclass(v: i64, l: usize) -> u64 {
    let half = 1i128 << (7 * l - 1);
    let d_hi = half - 1 - v as i128;
    let d_lo = v as i128 + half;
    let near = if (0..=2).contains(&d_hi) {
        1 + d_hi as u64
    } else if (0..=2).contains(&d_lo) {
        4 + d_lo as u64
    } else if d_hi < 0 || d_lo < 0 {
        7
    } else {
        0
    };
    (l as u64) * 16 + near
}

fn ref_signed_decode(b: &[u8], l: usize) -> i64 {
    let mut field: u64 = (b[0] as u64) & (0xFFu64 >> l);
    for x in &b[1..l] {
        field = (field << 8) | *x as u64;
    }
    let bits = 7 * l;
    if field & (1u64 << (bits - 1)) != 0 {
        (field | (!0u64 << bits)) as i64
    } else {
        field as i64
    }
}

fn check_signed(c: &mut Case, v: i64) {
    c.eval();
    c.count("signed_values_checked");
    if v % 5 == 0 {
        check_narrow_signed(c, v);
    }
    let wit = |what: &str, l: usize, got: String, want: String| J::obj().set("function", J::s(what)).set("width", J::u(l)).set("value", J::Int(v)).set("got", J::s(got)).set("expected", J::s(want));
    let mut shortest_strict: Option<usize> = None;
    for l in 1..=8usize {
        let half = 1i128 << (7 * l - 1);
        let strictly_inside = (v as i128) > -half && (v as i128) < half;
        let boundary = (v as i128) == -half;
        if strictly_inside && shortest_strict.is_none() {
            shortest_strict = Some(l);
        }
        match guard(1 << 20, || v.as_signed_vint_with_length(l).map_err(|e| format!("{:?}", e))) {
            Err(cg) => c.violation(format!("C15/signed-encode/{}", cg.sig()), format!("as_signed_vint_with_length({}, {}) {}", v, l, cg.text()), wit("as_signed_vint_with_length", l, cg.text(), "no panic".into())),
            Ok(Ok(bytes)) => {
                if !strictly_inside && !boundary {
                    c.violation(format!("C15/signed-accepts-out-of-range/w{}", l), format!("as_signed_vint_with_length({}, {}) = {} although the value does not fit", v, l, hex(&bytes)), wit("as_signed_vint_with_length", l, hex(&bytes), "Err".into()));
                    continue;
                }
                if bytes.len() != l || vint_len(bytes[0]) != Some(l) {
                    c.violation(format!("C15/signed-width/w{}", l), format!("as_signed_vint_with_length({}, {}) = {} is not a {}-byte vint", v, l, hex(&bytes), l), wit("as_signed_vint_with_length", l, hex(&bytes), format!("{} bytes with a width-{} marker", l, l)));
                    continue;
                }
                match guard(1 << 20, || tools::read_signed_vint(&bytes).map_err(|e| format!("{:?}", e))) {
                    Ok(Ok(Some((dv, dl)))) if dv == v && dl == l => {}
                    Err(cg) => c.violation(
                        format!("C15/signed-roundtrip/w{}/{}/{}", l, if v < 0 { "neg" } else { "nonneg" }, cg.sig()),
                        format!("read_signed_vint({}) {} (encoding of {} at width {})", hex(&bytes), cg.text(), v, l),
                        wit("read_signed_vint", l, cg.text(), format!("({},{})", v, l)),
                    ),
                    other => c.violation(
                        format!("C15/signed-roundtrip/w{}/{}", l, if v < 0 { "neg" } else { "nonneg" }),
                        format!("read_signed_vint({}) = {:?}, expected ({}, {})", hex(&bytes), other, v, l),
                        wit("read_signed_vint", l, format!("{:?}", other), format!("({},{})", v, l)),
                    ),
                }
            }
            Ok(Err(e)) => {
                if strictly_inside {
                    c.violation(format!("C15/signed-rejects-in-range/w{}", l), format!("as_signed_vint_with_length({}, {}) failed ({}) although the value is strictly inside the range", v, l, e), wit("as_signed_vint_with_length", l, e, "Ok".into()));
                }
            }
        }
        let cl = sclass(v, l);
        if cl % 16 != 0 {
            c.nontrivial(mix(2, cl));
        }
    }
    // default width
    match guard(1 << 20, || v.as_signed_vint().map_err(|e| format!("{:?}", e))) {
        Err(cg) => c.violation(format!("C15/signed-default/{}", cg.sig()), format!("as_signed_vint({}) {}", v, cg.text()), wit("as_signed_vint", 0, cg.text(), "no panic".into())),
        Ok(Ok(bytes)) => {
            let l = bytes.len();
            let ok_width = match shortest_strict {
                Some(s) => l == s || (l >= 1 && l < s && (v as i128) == -(1i128 << (7 * l - 1))),
                None => l == 8 && (v as i128) == -(1i128 << 55),
            };
            if !ok_width || vint_len(bytes[0]) != Some(l) {
                c.violation(
                    format!("C15/signed-default-width/{}", shortest_strict.map(|s| format!("w{}", s)).unwrap_or("none".into())),
                    format!("as_signed_vint({}) = {} ({} bytes); shortest width strictly containing the value is {:?}", v, hex(&bytes), l, shortest_strict),
                    wit("as_signed_vint", l, hex(&bytes), format!("{:?} bytes", shortest_strict)),
                );
            } else {
                match guard(1 << 20, || tools::read_signed_vint(&bytes).map_err(|e| format!("{:?}", e))) {
                    Ok(Ok(Some((dv, dl)))) if dv == v && dl == l => {}
                    other => c.violation(
                        format!("C15/signed-default-roundtrip/w{}/{}", l, if v < 0 { "neg" } else { "nonneg" }),
                        format!("read_signed_vint(as_signed_vint({}) = {}) = {:?}", v, hex(&bytes), other),
                        wit("read_signed_vint", l, format!("{:?}", other), format!("({},{})", v, l)),
                    ),
                }
            }
        }
        Ok(Err(e)) => {
            if shortest_strict.is_some() {
                c.violation("C15/signed-default-rejects", format!("as_signed_vint({}) failed ({}) although width {:?} holds it", v, e, shortest_strict), wit("as_signed_vint", 0, e, "Ok".into()));
            }
        }
    }
}

fn check_slice(c: &mut Case, s: &[u8]) {
    c.eval();
    c.count("slices_decoded");
    let want = dec_vint(s);
    let wit = |what: &str, got: String| J::obj().set("function", J::s(what)).set("slice", J::hex(s)).set("got", J::s(got)).set("reference", J::s(format!("{:?}", want)));
    let class = format!("len{}-first{}", s.len().min(9), s.first().map(|b| if *b == 0 { "zero".to_string() } else { format!("w{}", vint_len(*b).unwrap()) }).unwrap_or("none".into()));
    let u = guard(1 << 20, || tools::read_vint(s).map_err(|e| format!("{:?}", e)));
    let ulen: Option<Option<usize>> = match &u {
        Err(cg) => {
            c.violation(format!("C15/read_vint-slice/{}/{}", class, cg.sig()), format!("read_vint({}) {}", hex(s), cg.text()), wit("read_vint", cg.text()));
            None
        }
        Ok(r) => {
            let ok = match (r, want) {
                (Ok(None), Dec::NeedMore) => true,
                (Err(_), Dec::Invalid) => true,
                (Ok(Some((v, l))), Dec::Ok(rv, rl)) => *v == rv && *l == rl && *l <= s.len(),
                _ => false,
            };
            if !ok {
                c.violation(format!("C15/read_vint-slice/{}", class), format!("read_vint({}) = {:?}, reference {:?}", hex(s), r, want), wit("read_vint", format!("{:?}", r)));
            }
            match r {
                Ok(Some((_, l))) => Some(Some(*l)),
                Ok(None) => Some(None),
                Err(_) => None,
            }
        }
    };
    let sg = guard(1 << 20, || tools::read_signed_vint(s).map_err(|e| format!("{:?}", e)));
    match &sg {
        Err(cg) => {
            let sign = match want {
                Dec::Ok(_, l) => {
                    let sv = ref_signed_decode(s, l);
                    if sv < 0 {
                        "neg"
                    } else {
                        "nonneg"
                    }
                }
                _ => "na",
            };
            c.violation(format!("C15/read_signed_vint-slice/{}/{}/{}", class, sign, cg.sig()), format!("read_signed_vint({}) {}", hex(s), cg.text()), wit("read_signed_vint", cg.text()))
        }
        Ok(r) => {
            let ok = match (r, want) {
                (Ok(None), Dec::NeedMore) => true,
                (Err(_), Dec::Invalid) => true,
                (Ok(Some((v, l))), Dec::Ok(_, rl)) => {
                    if *l != rl || *l > s.len() {
                        false
                    } else {
                        let rv = ref_signed_decode(s, rl);
                        // the most negative field pattern is the don't-care boundary value
                        let boundary = rv as i128 == -(1i128 << (7 * rl - 1));
                        boundary || *v == rv
                    }
                }
                _ => false,
            };
            if !ok {
                c.violation(format!("C15/read_signed_vint-slice/{}", class), format!("read_signed_vint({}) = {:?}, reference {:?}", hex(s), r, want), wit("read_signed_vint", format!("{:?}", r)));
            }
            // length agreement between the two decoders
            let slen = match r {
                Ok(Some((_, l))) => Some(Some(*l)),
                Ok(None) => Some(None),
                Err(_) => None,
            };
            if let Ok(_) = &u {
                if slen != ulen {
                    c.violation(format!("C15/decoders-length-agree/{}", class), format!("read_vint and read_signed_vint disagree on {}: {:?} vs {:?}", hex(s), u, r), wit("both", format!("{:?} vs {:?}", u, r)));
                }
            }
        }
    }
    c.nontrivial(mix(3, crate::prng::hash_str(&class)));
}

fn check_is_vint(c: &mut Case, x: u64) {
    c.eval();
    c.count("is_vint_checked");
    let want = ref_id_wellformed(x);
    let bits = 64 - x.leading_zeros() as usize;
    let len = (bits + 7) / 8;
    match guard(1 << 20, || tools::is_vint(x)) {
        Err(cg) => c.violation(format!("C15/is_vint/{}", cg.sig()), format!("is_vint({:#x}) {}", x, cg.text()), J::obj().set("value_hex", J::s(format!("{:#x}", x)))),
        Ok(got) => {
            if got != want {
                let top = if len == 0 { 0 } else { (x >> (8 * (len - 1))) as u8 };
                c.violation(
                    format!("C15/is_vint/len{}-marker{}-expected-{}", len, if len == 0 { 0 } else { top.leading_zeros() + 1 }, want),
                    format!("is_vint({:#x}) = {} but byte length is {} and the length marker says {}", x, got, len, if len == 0 { 0 } else { top.leading_zeros() + 1 }),
                    J::obj().set("value_hex", J::s(format!("{:#x}", x))).set("got", J::Bool(got)).set("expected", J::Bool(want)),
                );
            }
        }
    }
    c.nontrivial(mix(4, (len as u64) * 2 + want as u64));
}

fn run(c: &mut Case) {
    let total = c.tier.pick(DEF.cases_quick, DEF.cases_thorough);
    let idx = c.idx;
    // ---- exhaustive shards
    let uw = c.tier.pick(3u32, 4);
    let usz: u64 = 1 << (7 * uw);
    let (ulo, uhi) = (usz / total * idx, if idx + 1 == total { usz } else { usz / total * (idx + 1) });
    for v in ulo..uhi {
        check_unsigned(c, v);
    }
    let sw = c.tier.pick(3u32, 3);
    let ssz: i64 = 1 << (7 * sw); // values in [-ssz/2 - 2, ssz/2 + 2)
    let span = ssz as u64 + 4;
    let (slo, shi) = (span / total * idx, if idx + 1 == total { span } else { span / total * (idx + 1) });
    for k in slo..shi {
        check_signed(c, k as i64 - ssz / 2 - 2);
    }
    // ---- lattice (only in the first cases; the lattice is small)
    if idx == 0 {
        for k in 1..=9u32 {
            // 2^(7k): smallest value of the next width / id marker; 2^(7k+1)-1: largest id of byte length k
            for base in [7 * k, 7 * k - 1, 7 * k + 1, 8 * k.min(8)] {
                if base >= 64 {
                    continue;
                }
                for d in -2i64..=2 {
                    let p = (1u64 << base).wrapping_add(d as u64);
                    check_unsigned(c, p);
                    check_is_vint(c, p);
                    if base < 63 {
                        let sp = (1i64 << base).wrapping_add(d);
                        check_signed(c, sp);
                        check_signed(c, sp.wrapping_neg());
                    }
                }
            }
        }
        for v in [0u64, 1, u64::MAX, u64::MAX - 1, 1 << 63, (1 << 63) + 1, (1 << 56) - 1, 1 << 56] {
            check_unsigned(c, v);
            check_is_vint(c, v);
        }
        for v in [0i64, 1, -1, i64::MIN, i64::MAX, i64::MIN + 1] {
            check_signed(c, v);
        }
        // all slices of length <= 2 (exhaustive)
        check_slice(c, &[]);
        for a in 0..=255u8 {
            check_slice(c, &[a]);
        }
    }
    // slices of length 2: shard by first byte
    for a in 0..=255u64 {
        if a % total.min(256) == idx % total.min(256) && idx < 256 {
            for b in 0..=255u8 {
                check_slice(c, &[a as u8, b]);
            }
        }
    }
    // ---- random values
    let n_rand = c.tier.pick(2000, 8000);
    for _ in 0..n_rand {
        let v = crate::gen::gen_u64(&mut c.rng);
        check_unsigned(c, v);
        let s = crate::gen::gen_i64(&mut c.rng);
        check_signed(c, s);
    }
    // ---- is_vint: well-formed ids of every length, their neighbours, random values
    for _ in 0..c.tier.pick(2000, 8000) {
        let x = match c.rng.below(4) {
            0 => {
                let l = c.rng.urange(1, 8);
                crate::gen::random_id(&mut c.rng, l)
            }
            1 => c.rng.next_u64() >> c.rng.below(64),
            2 => {
                let l = c.rng.urange(1, 8);
                crate::gen::random_id(&mut c.rng, l) >> c.rng.below(3)
            }
            _ => {
                let l = c.rng.urange(1, 8);
                crate::gen::random_id(&mut c.rng, l) << c.rng.below(3)
            }
        };
        check_is_vint(c, x);
    }
    // ---- decoder slices of length 3..9: every first byte x random tails x every truncation
    for first in 0..=255u8 {
        if c.tier == Tier::Quick && (first as u64 + idx) % 4 != 0 {
            continue;
        }
        let mut s = vec![first];
        let tail = match c.rng.below(4) {
            0 => vec![0u8; 8],
            1 => vec![0xFF; 8],
            _ => c.rng.bytes(8),
        };
        s.extend_from_slice(&tail);
        for cut in 3..=9 {
            check_slice(c, &s[..cut]);
        }
    }
    // long slices (the decoders must never look beyond the vint and never panic, whatever the length)
    if idx % 16 == 3 {
        for len in [10usize, 11, 15, 16, 17, 31, 32, 33, 63, 64, 65, 255, 256, 257, 4096] {
            for first in [0x00u8, 0x01, 0x02, 0x40, 0x80, 0xFF] {
                let mut sl = c.rng.bytes(len);
                sl[0] = first;
                check_slice(c, &sl);
            }
        }
    }
    if idx == 0 {
        c.set_sample(J::obj().set("kind", J::s("shard")).set("unsigned_range", J::s(format!("[{},{})", ulo, uhi))).set("signed_shard", J::s(format!("[{},{})", slo as i64 - ssz / 2 - 2, shi as i64 - ssz / 2 - 2))).set(
            "example_checks",
            J::Arr(vec![
                J::s(format!("as_vint(127) = {:?}", 127u64.as_vint().map(|b| hex(&b)))),
                J::s(format!("read_vint([0x40,0x7f]) = {:?}", tools::read_vint(&[0x40, 0x7f]))),
                J::s(format!("as_signed_vint(-33) = {:?}", (-33i64).as_signed_vint().map(|b| hex(&b)))),
                J::s(format!("is_vint(0x1a45dfa3) = {}", tools::is_vint(0x1a45dfa3))),
            ]),
        ));
    }
}
