//! Shared reader workloads: valid / hostile-valid / truncated / mutated / adversarial / random /
//! mid-document byte streams together with what the generator knows about them.

use super::common::*;
use crate::gen;
use crate::io::ScriptedWrite;
use crate::json::{hex_short, J};
use crate::mutate;
use crate::prng::Rng;
use crate::refcodec::{enc_tree, layout_guided, tree_short, Lay, Node};
use crate::runner::Tier;
use crate::spec::Spec;

pub struct Input {
    pub spec: Spec,
    pub tree: Vec<Node>,
    pub bytes: Vec<u8>,
    /// layout of the *unmutated* stream (empty when unknown)
    pub lay: Vec<Lay>,
    pub kind: String,
    /// true when the bytes are an unmodified valid document starting at a root element
    pub valid: bool,
    pub mutations: Vec<&'static str>,
}

impl Input {
    pub fn to_json(&self) -> J {
        J::obj().set("spec", self.spec.to_json()).set("input_kind", J::s(self.kind.clone())).set("mutations", J::Arr(self.mutations.iter().map(|m| J::s(*m)).collect())).set("tree_before_mutation", J::s(tree_short(&self.tree))).set("bytes", J::s(hex_short(&self.bytes, 700))).set("byte_len", J::u(self.bytes.len()))
    }
}

#[derive(Clone, Copy)]
pub struct Mix {
    pub valid: u64,
    pub truncated: u64,
    pub mutated: u64,
    pub adversarial: u64,
    pub random: u64,
    pub middoc: u64,
    pub p_unknown: u64,
    pub full_specs: bool,
    pub small: bool,
}

impl Mix {
    pub const ALL: Mix = Mix { valid: 25, truncated: 10, mutated: 40, adversarial: 10, random: 5, middoc: 10, p_unknown: 15, full_specs: true, small: false };
    pub const MOSTLY_VALID: Mix = Mix { valid: 60, truncated: 10, mutated: 20, adversarial: 0, random: 0, middoc: 10, p_unknown: 15, full_specs: false, small: false };
}

pub fn gen_valid(rng: &mut Rng, tier: Tier, m: &Mix) -> Input {
    let o = DocOpts { p_width: 10, p_unknown: m.p_unknown, raw: false, shaping: true, full_specs: m.full_specs && rng.chance(1, 3) };
    let mut doc = if m.small {
        let spec = gen::pick_spec(rng, &if o.full_specs { gen::SpecBounds::FULL } else { gen::SpecBounds::PLAIN });
        let tb = gen::TreeBounds { max_elems: 8, max_depth: 4, big_payloads: false, globals: true };
        let mut tree = gen::gen_tree(rng, &spec, &tb);
        gen::assign_opts(rng, &spec, &mut tree, o.p_width, o.p_unknown);
        Doc { spec, tree, has_raw: false, padded: None, last_empty: false }
    } else {
        gen_doc(rng, tier, &o)
    };
    doc.spec.install();
    // two producers: the real writer, or the hostile reference encoder
    if rng.chance(1, 2) {
        let (_c, run) = write_doc(rng, &doc.tree, ScriptedWrite::new());
        if run.all_ok() {
            let lay = layout_guided(&run.bytes, &doc.tree).unwrap_or_default();
            return Input { spec: doc.spec, tree: std::mem::take(&mut doc.tree), bytes: run.bytes, lay, kind: "valid/writer".into(), valid: true, mutations: vec![] };
        }
    }
    let mut rn = mutate::hostile_rnodes(rng, &doc.tree, true);
    if rng.chance(1, 3) {
        mutate::widen_sizes(rng, &mut rn, 30);
    }
    let (bytes, lay) = enc_tree(&rn);
    Input { spec: doc.spec, tree: doc.tree, bytes, lay, kind: "valid/reference-noncanonical".into(), valid: true, mutations: vec![] }
}

pub fn gen_input(rng: &mut Rng, tier: Tier, m: &Mix) -> Input {
    let total = m.valid + m.truncated + m.mutated + m.adversarial + m.random + m.middoc;
    let mut r = rng.below(total);
    let mut inp = gen_valid(rng, tier, m);
    if r < m.valid {
        return inp;
    }
    r -= m.valid;
    if r < m.truncated {
        if !inp.bytes.is_empty() {
            let n = rng.urange(0, inp.bytes.len() - 1);
            inp.bytes.truncate(n);
        }
        inp.kind = "truncated".into();
        inp.valid = false;
        return inp;
    }
    r -= m.truncated;
    if r < m.mutated {
        let n = rng.urange(1, 3);
        let (b, k) = mutate::mutate(rng, &inp.spec, &inp.bytes, &inp.lay, n);
        inp.bytes = b;
        inp.mutations = k;
        inp.kind = "mutated".into();
        inp.valid = false;
        return inp;
    }
    r -= m.mutated;
    if r < m.adversarial {
        let cat = mutate::adversarial_headers(rng, &inp.spec);
        let (name, hdr) = rng.pick(&cat).clone();
        // place it: alone, after a valid prefix cut at an element boundary, or inside (after a master header)
        let mut bytes = Vec::new();
        match rng.below(3) {
            0 => {}
            1 => {
                if !inp.lay.is_empty() {
                    let l = rng.pick(&inp.lay);
                    bytes.extend_from_slice(&inp.bytes[..l.off]);
                }
            }
            _ => {
                let masters: Vec<&Lay> = inp.lay.iter().filter(|l| l.is_master).collect();
                if !masters.is_empty() {
                    let l = rng.pick(&masters);
                    bytes.extend_from_slice(&inp.bytes[..l.data_start]);
                }
            }
        }
        bytes.extend_from_slice(&hdr);
        if rng.chance(1, 2) {
            let n = rng.urange(0, 20);
            bytes.extend(rng.bytes(n));
        }
        inp.bytes = bytes;
        inp.kind = format!("adversarial/{}", name);
        inp.valid = false;
        inp.lay = vec![];
        return inp;
    }
    r -= m.adversarial;
    if r < m.random {
        let n = rng.urange(0, 200);
        inp.bytes = rng.bytes(n);
        if rng.chance(1, 2) && !inp.bytes.is_empty() {
            // make the first byte a plausible id start
            let e = rng.pick(&inp.spec.elems);
            let idb = crate::refcodec::id_bytes(e.id);
            let k = idb.len().min(inp.bytes.len());
            inp.bytes[..k].copy_from_slice(&idb[..k]);
        }
        inp.kind = "random".into();
        inp.valid = false;
        inp.lay = vec![];
        return inp;
    }
    // mid-document suffix: start at an element boundary at depth >= 1
    let deep: Vec<&Lay> = inp.lay.iter().filter(|l| l.depth >= 1).collect();
    if !deep.is_empty() {
        let l = *rng.pick(&deep);
        let off = l.off;
        inp.bytes = inp.bytes[off..].to_vec();
        inp.kind = format!("mid-document/depth{}", l.depth);
        inp.valid = false;
        inp.lay = vec![];
    }
    inp
}
