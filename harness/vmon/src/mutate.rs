//! Byte-stream mutators and hostile encoders: random byte mutations, layout-aware header rewrites,
//! non-canonical payload encodings, adversarial header catalogue.

use crate::prng::Rng;
use crate::refcodec::{enc_payload_canonical, enc_unknown_size, enc_vint, id_bytes, Lay, Node, RBody, RNode, RSz, SizeOpt};
use crate::spec::{Item, Spec, Ty};

/// Apply one random mutation. `lay` (layout of the unmutated stream) enables header-aware mutations.
pub fn mutate_once(rng: &mut Rng, spec: &Spec, b: &mut Vec<u8>, lay: &[Lay]) -> &'static str {
    if b.is_empty() {
        b.push(rng.byte());
        return "insert";
    }
    let choice = rng.below(if lay.is_empty() { 6 } else { 11 });
    match choice {
        0 => {
            let i = rng.usize_below(b.len());
            b[i] ^= 1 << rng.below(8);
            "bitflip"
        }
        1 => {
            let i = rng.usize_below(b.len());
            b[i] = *rng.pick(&[0x00u8, 0xFF, 0x80, 0x7F, 0x01, 0x40, 0xEC, 0xBF]);
            "byteset"
        }
        2 => {
            let i = rng.urange(0, b.len());
            let n = rng.urange(1, 6);
            let ins = rng.bytes(n);
            b.splice(i..i, ins);
            "insert"
        }
        3 => {
            let i = rng.usize_below(b.len());
            let n = rng.urange(1, 6).min(b.len() - i);
            b.drain(i..i + n);
            "delete"
        }
        4 => {
            let n = rng.urange(0, b.len());
            b.truncate(n);
            "truncate"
        }
        5 => {
            let i = rng.usize_below(b.len());
            let n = rng.urange(1, 24).min(b.len() - i);
            let chunk = b[i..i + n].to_vec();
            let j = rng.urange(0, b.len());
            b.splice(j..j, chunk);
            "duplicate"
        }
        6 | 7 => {
            // rewrite a size field in place (same width)
            let l = rng.pick(lay);
            let w = l.size_len;
            let cur = l.size.unwrap_or(0);
            let maxv = (1u64 << (7 * w)) - 1;
            let nv = match rng.below(6) {
                0 => 0,
                1 => cur.wrapping_add(1).min(maxv),
                2 => cur.saturating_sub(1),
                3 => maxv, // unknown
                4 => maxv - 1,
                _ => rng.below(maxv + 1),
            };
            let enc = enc_vint(nv.min(maxv), w);
            let at = l.off + l.id_len;
            if at + w <= b.len() {
                b[at..at + w].copy_from_slice(&enc);
            }
            "size-rewrite"
        }
        8 => {
            // replace an id by another known id (possibly of a different length)
            let l = rng.pick(lay);
            let e = rng.pick(&spec.elems);
            let nb = id_bytes(e.id);
            if l.off + l.id_len <= b.len() {
                b.splice(l.off..l.off + l.id_len, nb);
            }
            "id-to-known"
        }
        9 => {
            // replace an id by an unknown id of the same length
            let l = rng.pick(lay);
            let mut nid;
            loop {
                nid = crate::gen::random_id(rng, l.id_len);
                if spec.get(nid).is_none() {
                    break;
                }
            }
            let nb = id_bytes(nid);
            if l.off + l.id_len <= b.len() {
                b.splice(l.off..l.off + l.id_len, nb);
            }
            "id-to-unknown"
        }
        _ => {
            // move a whole element somewhere else (subtree splice)
            let l = rng.pick(lay);
            if l.end <= b.len() && l.off < l.end {
                let chunk: Vec<u8> = b[l.off..l.end].to_vec();
                let target = rng.pick(lay);
                let pos = if rng.chance(1, 2) { target.data_start } else { target.end };
                if pos <= b.len() {
                    b.splice(pos..pos, chunk);
                }
            }
            "subtree-copy"
        }
    }
}

pub fn mutate(rng: &mut Rng, spec: &Spec, bytes: &[u8], lay: &[Lay], n: usize) -> (Vec<u8>, Vec<&'static str>) {
    let mut b = bytes.to_vec();
    let mut kinds = Vec::new();
    for i in 0..n {
        // layout is only valid for the first mutation
        let k = mutate_once(rng, spec, &mut b, if i == 0 { lay } else { &[] });
        kinds.push(k);
    }
    (b, kinds)
}

/// A non-canonical but valid encoding of a leaf value: zero/sign-padded ints, 0-length zero, 4-byte floats.
pub fn noncanon_payload(rng: &mut Rng, it: &Item) -> Vec<u8> {
    let canon = enc_payload_canonical(it);
    match it {
        Item::U(_, v) => {
            if *v == 0 && rng.chance(1, 3) {
                return vec![];
            }
            let min: Vec<u8> = v.to_be_bytes().iter().skip_while(|b| **b == 0).copied().collect();
            let min = if min.is_empty() { vec![0] } else { min };
            let len = rng.urange(min.len(), 8);
            let mut p = vec![0u8; len - min.len()];
            p.extend_from_slice(&min);
            p
        }
        Item::I(_, v) => {
            if *v == 0 && rng.chance(1, 3) {
                return vec![];
            }
            // minimal two's complement length
            let mut l = 1;
            while l < 8 {
                let lo = -(1i128 << (8 * l - 1));
                let hi = (1i128 << (8 * l - 1)) - 1;
                if (*v as i128) >= lo && (*v as i128) <= hi {
                    break;
                }
                l += 1;
            }
            let len = rng.urange(l, 8);
            v.to_be_bytes()[8 - len..].to_vec()
        }
        Item::F(_, bits) => {
            let f = f64::from_bits(*bits);
            let f32v = f as f32;
            if !f.is_nan() && (f32v as f64).to_bits() == *bits && rng.chance(1, 2) {
                f32v.to_be_bytes().to_vec()
            } else {
                canon
            }
        }
        _ => canon,
    }
}

/// Reference-encode a semantic tree with hostile-but-valid choices: random size widths, unknown sizes of any
/// width (where the tree says Unknown), non-canonical payloads.
pub fn hostile_rnodes(rng: &mut Rng, nodes: &[Node], noncanon: bool) -> Vec<RNode> {
    nodes
        .iter()
        .map(|n| {
            if n.is_master() {
                let children = hostile_rnodes(rng, &n.children, noncanon);
                let sz = match n.opt {
                    SizeOpt::Unknown => RSz::Unknown(rng.urange(1, 8)),
                    SizeOpt::Width(w) => RSz::Width(w),
                    SizeOpt::Default => RSz::Min,
                };
                RNode { id: n.id(), sz, body: RBody::Master(children) }
            } else {
                let p = if noncanon { noncanon_payload(rng, &n.item) } else { enc_payload_canonical(&n.item) };
                let sz = match n.opt {
                    SizeOpt::Width(w) if crate::refcodec::width_fits(p.len() as u64, w) => RSz::Width(w),
                    _ => RSz::Min,
                };
                RNode { id: n.id(), sz, body: RBody::Payload(p) }
            }
        })
        .collect()
}

/// Randomly widen the size fields of an RNode tree (valid non-minimal widths).
pub fn widen_sizes(rng: &mut Rng, nodes: &mut [RNode], pct: u64) {
    for n in nodes.iter_mut() {
        if let RBody::Master(ch) = &mut n.body {
            widen_sizes(rng, ch, pct);
        }
        if matches!(n.sz, RSz::Min) && rng.below(100) < pct {
            n.sz = RSz::Width(rng.urange(4, 8));
        }
    }
}

/// Adversarial single headers (id bytes + size bytes + a few payload bytes) for elements of `spec`.
pub fn adversarial_headers(rng: &mut Rng, spec: &Spec) -> Vec<(String, Vec<u8>)> {
    let mut out: Vec<(String, Vec<u8>)> = Vec::new();
    let pick_ty = |t: Ty| spec.elems.iter().find(|e| e.ty == t).map(|e| e.id);
    for (name, ty) in [("uint", Ty::U), ("sint", Ty::I), ("float", Ty::F), ("utf8", Ty::S), ("binary", Ty::B), ("master", Ty::Master)] {
        if let Some(id) = pick_ty(ty) {
            let idb = id_bytes(id);
            // zero-length
            let mut v = idb.clone();
            v.push(0x80);
            out.push((format!("{}-zero-length", name), v));
            // 9-byte payload
            let mut v = idb.clone();
            v.push(0x89);
            v.extend_from_slice(&[1, 2, 3, 4, 5, 6, 7, 8, 9]);
            out.push((format!("{}-9-bytes", name), v));
            // 3-byte payload (invalid for floats)
            let mut v = idb.clone();
            v.push(0x83);
            v.extend_from_slice(&[0xFF, 0xFE, 0xFD]);
            out.push((format!("{}-3-bytes", name), v));
            // all-ones size of every width
            for w in 1..=8 {
                let mut v = idb.clone();
                v.extend_from_slice(&enc_unknown_size(w));
                v.extend_from_slice(&[0x42, 0x86, 0x81, 0x01]);
                out.push((format!("{}-unknown-size-w{}", name, w), v));
            }
            // 8-byte size field with small and huge values
            for val in [0u64, 1, 5, (1 << 56) - 2, 1 << 40, 4_000_000_001] {
                let mut v = idb.clone();
                v.extend_from_slice(&enc_vint(val, 8));
                v.extend_from_slice(&[0u8; 5]);
                out.push((format!("{}-size8-{}", name, if val < 10 { "small" } else { "huge" }), v));
            }
            // size byte 0x00 (invalid vint)
            let mut v = idb.clone();
            v.extend_from_slice(&[0x00, 0x00, 0x00]);
            out.push((format!("{}-size-first-byte-zero", name), v));
            // header only, header cut inside size
            out.push((format!("{}-id-only", name), idb.clone()));
            let mut v = idb.clone();
            v.push(0x40);
            out.push((format!("{}-size-incomplete", name), v));
        }
    }
    // id first byte 0x00, ill-formed ids, 8-byte ids
    out.push(("id-first-byte-zero".into(), vec![0x00, 0x81, 0x01, 0x02]));
    out.push(("id-all-zero".into(), vec![0u8; 20]));
    out.push(("id-8-byte-unknown".into(), vec![0x01, 0xAA, 0xBB, 0xCC, 0xDD, 0xEE, 0xFF, 0x11, 0x81, 0x07]));
    out.push(("id-all-ones-1".into(), vec![0xFF, 0x81, 0x00]));
    out.push(("id-all-ones-2".into(), vec![0x7F, 0xFF, 0x81, 0x00]));
    let n = rng.urange(1, 40);
    out.push(("random-bytes".into(), rng.bytes(n)));
    out
}

/// Mutations that keep every size field and the alignment of the stream intact (ids only): used where the size
/// limit cannot be configured (async adapter) and a misaligned parse could legitimately allocate gigabytes.
pub fn mutate_ids_only(rng: &mut Rng, spec: &Spec, bytes: &[u8], lay: &[Lay], n: usize) -> (Vec<u8>, Vec<&'static str>) {
    let mut b = bytes.to_vec();
    let mut kinds = Vec::new();
    if lay.is_empty() {
        return (b, kinds);
    }
    for _ in 0..n {
        let l = rng.pick(lay);
        if l.off + l.id_len > b.len() {
            continue;
        }
        if rng.chance(1, 2) {
            // another known id of the same byte length
            let same: Vec<u64> = spec.elems.iter().map(|e| e.id).filter(|i| id_bytes(*i).len() == l.id_len).collect();
            if same.is_empty() {
                continue;
            }
            let nid = *rng.pick(&same);
            b[l.off..l.off + l.id_len].copy_from_slice(&id_bytes(nid));
            kinds.push("id-to-known-same-length");
        } else {
            let nid = loop {
                let x = crate::gen::random_id(rng, l.id_len);
                if spec.get(x).is_none() {
                    break x;
                }
            };
            b[l.off..l.off + l.id_len].copy_from_slice(&id_bytes(nid));
            kinds.push("id-to-unknown");
        }
    }
    (b, kinds)
}
