//! Scripted I/O at the client boundary: Read / Write / AsyncRead implementations that deliver
//! data according to a schedule, poison unused buffer space, inject faults, and log every call.

use crate::obs::READ_BUDGET_MARKER;
use std::io;
use std::pin::Pin;
use std::task::{Context, Poll};

#[derive(Clone, Copy, Debug, PartialEq, Eq, Hash)]
pub enum Poison {
    None,
    Byte(u8),
    Counter,
}

pub const POISONS: [Poison; 6] = [Poison::None, Poison::Byte(0x00), Poison::Byte(0xFF), Poison::Byte(0x80), Poison::Byte(0x42), Poison::Counter];

#[derive(Clone, Debug)]
pub struct ScriptedRead {
    pub data: Vec<u8>,
    pub pos: usize,
    /// byte counts for successive read() calls; when exhausted `tail` is used for every further call
    pub chunks: Vec<usize>,
    pub tail: usize,
    /// absolute positions at which the source reports temporary end-of-file (Ok(0)) until `release()` is called
    pub stops: Vec<usize>,
    stop_idx: usize,
    /// absolute positions at which the source answers Ok(0) exactly once and delivers data again on the very next call
    /// (a resumable source seen mid-call; unlike `stops`, which last until the next API call)
    pub blips: Vec<usize>,
    blip_idx: usize,
    pub poison: Poison,
    /// inject an I/O error at this read() call index (0-based, counted over the whole life)
    pub fault_at: Option<(usize, io::ErrorKind, String)>,
    pub call: usize,
    pub calls_this_api: usize,
    pub budget: usize,
    /// (buffer length offered, bytes returned or -1 for error)
    pub log: Vec<(usize, isize)>,
    pub zero_len_bufs: usize,
    pub stalled: bool,
    /// record calls in `log` (off for allocation measurements: the log itself allocates inside the measured window)
    pub keep_log: bool,
}

impl ScriptedRead {
    pub fn new(data: Vec<u8>) -> Self {
        ScriptedRead {
            data,
            pos: 0,
            chunks: vec![],
            tail: usize::MAX,
            stops: vec![],
            stop_idx: 0,
            poison: Poison::None,
            blips: Vec::new(),
            blip_idx: 0,
            fault_at: None,
            call: 0,
            calls_this_api: 0,
            budget: usize::MAX,
            log: Vec::new(),
            zero_len_bufs: 0,
            stalled: false,
            keep_log: true,
        }
    }
    pub fn with_chunks(mut self, chunks: Vec<usize>, tail: usize) -> Self {
        self.chunks = chunks;
        self.tail = tail.max(1);
        self
    }
    pub fn with_poison(mut self, p: Poison) -> Self {
        self.poison = p;
        self
    }
    pub fn with_stops(mut self, mut stops: Vec<usize>) -> Self {
        stops.sort();
        stops.dedup();
        self.stops = stops;
        self
    }
    pub fn with_blips(mut self, mut blips: Vec<usize>) -> Self {
        blips.sort();
        blips.dedup();
        self.blips = blips;
        self
    }
    pub fn with_fault(mut self, call: usize, kind: io::ErrorKind, msg: String) -> Self {
        self.fault_at = Some((call, kind, msg));
        self
    }
    /// Called by the driver before each API call: new read budget, release a pending temporary EOF.
    pub fn begin_api_call(&mut self) {
        self.calls_this_api = 0;
        self.budget = 8 * (self.data.len() - self.pos) + 64;
        if self.stalled {
            self.stalled = false;
            self.stop_idx += 1;
        }
    }
    pub fn exhausted(&self) -> bool {
        self.pos >= self.data.len()
    }
    pub fn at_stop(&self) -> bool {
        self.stalled
    }
    fn fill_poison(&self, buf: &mut [u8]) {
        match self.poison {
            Poison::None => {}
            Poison::Byte(b) => buf.iter_mut().for_each(|x| *x = b),
            Poison::Counter => buf.iter_mut().enumerate().for_each(|(i, x)| *x = (i as u8).wrapping_mul(37).wrapping_add(self.call as u8) | 1),
        }
    }
    fn do_read(&mut self, buf: &mut [u8]) -> io::Result<usize> {
        let idx = self.call;
        self.call += 1;
        self.calls_this_api += 1;
        if self.calls_this_api > self.budget {
            panic!("{}", READ_BUDGET_MARKER);
        }
        if let Some((at, kind, msg)) = &self.fault_at {
            if *at == idx {
                if self.keep_log {
                    self.log.push((buf.len(), -1));
                }
                return Err(io::Error::new(*kind, msg.clone()));
            }
        }
        if buf.is_empty() {
            self.zero_len_bufs += 1;
            if self.keep_log && self.log.len() < 4096 {
                self.log.push((0, 0));
            }
            return Ok(0);
        }
        // temporary EOF?
        while self.stop_idx < self.stops.len() && self.stops[self.stop_idx] < self.pos {
            self.stop_idx += 1;
        }
        let mut limit = self.data.len() - self.pos;
        if self.stop_idx < self.stops.len() {
            let s = self.stops[self.stop_idx];
            if s == self.pos && s < self.data.len() {
                self.stalled = true;
                let pe = buf.len().min(48);
                self.fill_poison(&mut buf[..pe]);
                if self.keep_log && self.log.len() < 4096 {
                    self.log.push((buf.len(), 0));
                }
                return Ok(0);
            }
            limit = limit.min(s - self.pos);
        }
        // one-shot empty read?
        while self.blip_idx < self.blips.len() && self.blips[self.blip_idx] < self.pos {
            self.blip_idx += 1;
        }
        if self.blip_idx < self.blips.len() {
            let b = self.blips[self.blip_idx];
            if b == self.pos && b < self.data.len() {
                self.blip_idx += 1;
                let pe = buf.len().min(48);
                self.fill_poison(&mut buf[..pe]);
                if self.keep_log && self.log.len() < 4096 {
                    self.log.push((buf.len(), 0));
                }
                return Ok(0);
            }
            limit = limit.min(b - self.pos);
        }
        let want = if idx < self.chunks.len() { self.chunks[idx] } else { self.tail };
        let n = want.min(buf.len()).min(limit);
        // poison the 48 bytes that follow the delivered ones (a legal thing for a Read impl to do):
        // any dependence on bytes beyond the valid end of the buffer then shows up in the results
        let pe = buf.len().min(n + 48);
        self.fill_poison(&mut buf[n..pe]);
        buf[..n].copy_from_slice(&self.data[self.pos..self.pos + n]);
        self.pos += n;
        if self.keep_log && self.log.len() < 4096 {
            self.log.push((buf.len(), n as isize));
        }
        Ok(n)
    }
}

impl io::Read for ScriptedRead {
    fn read(&mut self, buf: &mut [u8]) -> io::Result<usize> {
        self.do_read(buf)
    }
}

// ---------------------------------------------------------------- async

pub struct ScriptedAsyncRead {
    pub inner: ScriptedRead,
    /// poll indices (0-based over the whole life) at which Pending is returned
    pub pending_every: usize, // 0 = never; k = every k-th poll is Pending
    pub polls: usize,
    pub pendings: usize,
}

impl ScriptedAsyncRead {
    pub fn new(inner: ScriptedRead, pending_every: usize) -> Self {
        ScriptedAsyncRead { inner, pending_every, polls: 0, pendings: 0 }
    }
}

thread_local! {
    /// bytes handed out by each completed read of the ScriptedAsyncRead sources of this thread (the adapter owns its
    /// source and offers no way to get it back, so the log lives here); cleared by the monitor before a run
    pub static ASYNC_READ_LOG: std::cell::RefCell<Vec<usize>> = std::cell::RefCell::new(Vec::new());
}

impl futures::io::AsyncRead for ScriptedAsyncRead {
    fn poll_read(mut self: Pin<&mut Self>, cx: &mut Context<'_>, buf: &mut [u8]) -> Poll<io::Result<usize>> {
        let p = self.polls;
        self.polls += 1;
        if self.pending_every > 0 && p % self.pending_every == self.pending_every - 1 {
            self.pendings += 1;
            cx.waker().wake_by_ref();
            return Poll::Pending;
        }
        let r = self.inner.do_read(buf);
        if let Ok(n) = &r {
            ASYNC_READ_LOG.with(|l| l.borrow_mut().push(*n));
        }
        Poll::Ready(r)
    }
}

// ---------------------------------------------------------------- write

#[derive(Clone, Debug)]
pub struct ScriptedWrite {
    pub data: Vec<u8>,
    /// max bytes accepted by successive write() calls (cycled); empty = accept everything
    pub limits: Vec<usize>,
    /// every k-th write() call returns ErrorKind::Interrupted first (0 = never)
    pub interrupt_every: usize,
    pub calls: usize,
    pub writes: usize,
    pub flushes: usize,
    /// fail (ErrorKind::Other) once `data` would exceed this many bytes
    pub fail_after: Option<usize>,
    /// the k-th flush() call (0-based) fails once with ErrorKind::Other although every write() took all its bytes
    pub fail_flush_at: Option<usize>,
}

impl ScriptedWrite {
    pub fn new() -> Self {
        ScriptedWrite { data: Vec::new(), limits: vec![], interrupt_every: 0, calls: 0, writes: 0, flushes: 0, fail_after: None, fail_flush_at: None }
    }
    pub fn with_limits(mut self, l: Vec<usize>) -> Self {
        self.limits = l;
        self
    }
    pub fn with_interrupts(mut self, k: usize) -> Self {
        self.interrupt_every = k;
        self
    }
}

impl io::Write for ScriptedWrite {
    fn write(&mut self, buf: &[u8]) -> io::Result<usize> {
        let idx = self.calls;
        self.calls += 1;
        if self.interrupt_every > 0 && idx % self.interrupt_every == self.interrupt_every - 1 {
            return Err(io::Error::new(io::ErrorKind::Interrupted, "verif-interrupted"));
        }
        if buf.is_empty() {
            return Ok(0);
        }
        if let Some(f) = self.fail_after {
            if self.data.len() >= f {
                return Err(io::Error::new(io::ErrorKind::Other, "verif-write-fault"));
            }
        }
        let lim = if self.limits.is_empty() { usize::MAX } else { self.limits[self.writes % self.limits.len()].max(1) };
        self.writes += 1;
        let n = buf.len().min(lim);
        self.data.extend_from_slice(&buf[..n]);
        Ok(n)
    }
    fn flush(&mut self) -> io::Result<()> {
        let idx = self.flushes;
        self.flushes += 1;
        if self.fail_flush_at == Some(idx) {
            return Err(io::Error::new(io::ErrorKind::Other, "verif-flush-fault"));
        }
        Ok(())
    }
}
