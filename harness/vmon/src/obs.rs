//! Observation of panics and logical hangs around single API calls.

use std::cell::RefCell;
use std::panic::{catch_unwind, AssertUnwindSafe};

thread_local! {
    static LAST_PANIC: RefCell<Option<String>> = const { RefCell::new(None) };
}

pub const READ_BUDGET_MARKER: &str = "verif: read budget exceeded";
pub const STEP_BUDGET_MARKER: &str = "verif: step budget exceeded";

/// Install a panic hook that records message and location in a thread-local instead of printing.
pub fn install_hook() {
    std::panic::set_hook(Box::new(|info| {
        let msg = if let Some(s) = info.payload().downcast_ref::<&str>() {
            (*s).to_string()
        } else if let Some(s) = info.payload().downcast_ref::<String>() {
            s.clone()
        } else {
            "<non-string panic>".to_string()
        };
        let loc = info.location().map(|l| format!("{}:{}", l.file(), l.line())).unwrap_or_default();
        LAST_PANIC.with(|p| *p.borrow_mut() = Some(format!("{} @ {}", msg, loc)));
    }));
}

pub fn take_last_panic() -> Option<String> {
    LAST_PANIC.with(|p| p.borrow_mut().take())
}

#[derive(Clone, Debug, PartialEq, Eq)]
pub enum Caught {
    Panic(String),
    /// a logical budget (steps / source reads) was exceeded: the call would not terminate in linear work
    Hang(String),
}

impl Caught {
    pub fn text(&self) -> String {
        match self {
            Caught::Panic(s) => format!("PANIC: {}", s),
            Caught::Hang(s) => format!("HANG: {}", s),
        }
    }
    /// Stable part of a panic for signatures: message without numbers + file name without line.
    pub fn sig(&self) -> String {
        let s = match self {
            Caught::Panic(s) => s,
            Caught::Hang(s) => s,
        };
        let (msg, loc) = match s.rfind(" @ ") {
            Some(i) => (&s[..i], &s[i + 3..]),
            None => (s.as_str(), ""),
        };
        let file = loc.rsplit('/').next().unwrap_or("").split(':').next().unwrap_or("");
        let mut m: String = msg.chars().filter(|c| !c.is_ascii_digit()).take(48).collect();
        m = m.replace(' ', "_");
        format!("{}:{}:{}", if matches!(self, Caught::Panic(_)) { "panic" } else { "hang" }, file, m)
    }
}

/// Run one API call with a logical step budget; classify panics.
pub fn guard<T>(step_limit: u64, f: impl FnOnce() -> T) -> Result<T, Caught> {
    ebml_iterable::verif::reset(step_limit);
    let _ = take_last_panic();
    let r = catch_unwind(AssertUnwindSafe(f));
    match r {
        Ok(v) => Ok(v),
        Err(_) => {
            let msg = take_last_panic().unwrap_or_else(|| "<unknown panic>".into());
            if msg.contains(READ_BUDGET_MARKER) || msg.contains(STEP_BUDGET_MARKER) {
                Err(Caught::Hang(msg))
            } else {
                Err(Caught::Panic(msg))
            }
        }
    }
}

pub fn steps() -> u64 {
    ebml_iterable::verif::steps()
}
