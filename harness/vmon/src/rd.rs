//! Reader driver: builds a TagIterator<_, DynTag> from a configuration, performs guarded API calls and
//! normalises everything the iterator hands back into comparable records.

use crate::io::ScriptedRead;
use crate::json::{hex_short, J};
use crate::obs::{guard, Caught};
use crate::spec::{DVal, DynTag, Item};
use ebml_iterable::error::{CorruptedFileError, TagIteratorError};
use ebml_iterable::iterator::AllowableErrors;
use ebml_iterable::specs::Master;
use ebml_iterable::TagIterator;
use std::io::Read;

pub const ALLOW_IDS: u8 = 1;
pub const ALLOW_HIER: u8 = 2;
pub const ALLOW_OVERSIZE: u8 = 4;

#[derive(Clone, Debug, PartialEq, Eq, Hash)]
pub enum ErrRec {
    InvalidTagId { pos: usize, id: u64 },
    InvalidTagData { pos: usize, id: u64 },
    Hierarchy { found: u64, parent: Option<u64> },
    OversizedChild { pos: usize, id: u64, size: usize },
    InvalidTagSize { pos: usize, id: u64, size: usize },
    Eof { start: usize, id: Option<u64>, size: Option<usize>, partial: Option<Vec<u8>> },
    TagData { id: u64, problem: String },
    Read { kind: String, msg: String },
}

impl ErrRec {
    pub fn from(e: &TagIteratorError) -> ErrRec {
        match e {
            TagIteratorError::CorruptedFileData(c) => match c {
                CorruptedFileError::InvalidTagId { position, tag_id } => ErrRec::InvalidTagId { pos: *position, id: *tag_id },
                CorruptedFileError::InvalidTagData { position, tag_id } => ErrRec::InvalidTagData { pos: *position, id: *tag_id },
                CorruptedFileError::HierarchyError { found_tag_id, current_parent_id } => ErrRec::Hierarchy { found: *found_tag_id, parent: *current_parent_id },
                CorruptedFileError::OversizedChildElement { position, tag_id, size } => ErrRec::OversizedChild { pos: *position, id: *tag_id, size: *size },
                CorruptedFileError::InvalidTagSize { position, tag_id, size } => ErrRec::InvalidTagSize { pos: *position, id: *tag_id, size: *size },
            },
            TagIteratorError::UnexpectedEOF { tag_start, tag_id, tag_size, partial_data } => ErrRec::Eof { start: *tag_start, id: *tag_id, size: *tag_size, partial: partial_data.clone() },
            TagIteratorError::CorruptedTagData { tag_id, problem } => ErrRec::TagData { id: *tag_id, problem: format!("{:?}", problem).chars().take(60).collect() },
            TagIteratorError::ReadError { source } => {
                // "carrying the original error": the variant's field is what is judged; whether std::error::Error::source()
                // leads to it as well is recorded (thread-local counter), a second channel no statement demands
                let via_chain = std::error::Error::source(e).and_then(|s| s.downcast_ref::<std::io::Error>()).map(|io| io.kind() == source.kind() && io.to_string() == source.to_string()).unwrap_or(false);
                SOURCE_CHAIN.with(|c| {
                    let mut c = c.borrow_mut();
                    if via_chain { c.0 += 1 } else { c.1 += 1 }
                });
                ErrRec::Read { kind: format!("{:?}", source.kind()), msg: source.to_string() }
            }
        }
    }
    pub fn kind(&self) -> &'static str {
        match self {
            ErrRec::InvalidTagId { .. } => "InvalidTagId",
            ErrRec::InvalidTagData { .. } => "InvalidTagData",
            ErrRec::Hierarchy { .. } => "HierarchyError",
            ErrRec::OversizedChild { .. } => "OversizedChildElement",
            ErrRec::InvalidTagSize { .. } => "InvalidTagSize",
            ErrRec::Eof { .. } => "UnexpectedEOF",
            ErrRec::TagData { .. } => "CorruptedTagData",
            ErrRec::Read { .. } => "ReadError",
        }
    }
    /// position the error points at, when it carries one
    pub fn pos(&self) -> Option<usize> {
        match self {
            ErrRec::InvalidTagId { pos, .. } | ErrRec::InvalidTagData { pos, .. } | ErrRec::OversizedChild { pos, .. } | ErrRec::InvalidTagSize { pos, .. } => Some(*pos),
            ErrRec::Eof { start, .. } => Some(*start),
            _ => None,
        }
    }
    pub fn is_corruption(&self) -> bool {
        matches!(self, ErrRec::InvalidTagId { .. } | ErrRec::InvalidTagData { .. } | ErrRec::Hierarchy { .. } | ErrRec::OversizedChild { .. } | ErrRec::InvalidTagSize { .. })
    }
    pub fn short(&self) -> String {
        match self {
            ErrRec::Eof { start, id, size, partial } => format!("UnexpectedEOF{{start:{},id:{:x?},size:{:?},partial:{}}}", start, id, size, partial.as_ref().map(|p| hex_short(p, 16)).unwrap_or("None".into())),
            other => format!("{:x?}", other),
        }
    }
}

#[derive(Clone, Copy, Debug, PartialEq, Eq, Hash)]
pub enum MaxSz {
    Default,
    Set(Option<usize>),
}

#[derive(Clone, Debug, PartialEq, Eq, Hash)]
pub struct RCfg {
    pub allow: u8,
    pub buffered: Vec<u64>,
    pub capacity: Option<usize>,
    pub max_size: MaxSz,
    pub eof_end: bool,
}

impl RCfg {
    pub fn strict() -> RCfg {
        RCfg { allow: 0, buffered: vec![], capacity: None, max_size: MaxSz::Set(Some(1 << 20)), eof_end: true }
    }
    pub fn with_allow(mut self, a: u8) -> RCfg {
        self.allow = a;
        self
    }
    pub fn with_buffered(mut self, b: Vec<u64>) -> RCfg {
        self.buffered = b;
        self
    }
    pub fn with_capacity(mut self, c: usize) -> RCfg {
        self.capacity = Some(c);
        self
    }
    pub fn to_json(&self) -> J {
        J::obj()
            .set("allow_mask", J::u(self.allow))
            .set("buffered", J::Arr(self.buffered.iter().map(|i| J::s(format!("{:x}", i))).collect()))
            .set("capacity", self.capacity.map(J::u).unwrap_or(J::Null))
            .set("max_size", J::s(format!("{:?}", self.max_size)))
            .set("eof_end", J::Bool(self.eof_end))
    }
}

thread_local! {
    /// state of the configuration-history generator; re-seeded by the runner at the start of every case
    pub static CFG_HIST: std::cell::Cell<u64> = const { std::cell::Cell::new(0x9E3779B97F4A7C15) };
}

pub fn allow_list(mask: u8) -> Vec<AllowableErrors> {
    let mut allow = Vec::new();
    if mask & ALLOW_IDS != 0 {
        allow.push(AllowableErrors::InvalidTagIds);
    }
    if mask & ALLOW_HIER != 0 {
        allow.push(AllowableErrors::HierarchyProblems);
    }
    if mask & ALLOW_OVERSIZE != 0 {
        allow.push(AllowableErrors::OversizedTags);
    }
    allow
}

pub fn make_iter<R: Read>(src: R, cfg: &RCfg) -> TagIterator<R, DynTag> {
    let buf: Vec<DynTag> = cfg.buffered.iter().map(|id| DynTag { id: *id, val: DVal::M(Master::Start) }).collect();
    let mut it = match cfg.capacity {
        Some(c) => TagIterator::with_capacity(src, &buf, c),
        None => TagIterator::new(src, &buf),
    };
    // Configuration history: in a third of the constructions the setters are first called with *other* values, so
    // that the final configuration is reached by overwriting earlier ones (setters replace, they do not accumulate).
    let h = CFG_HIST.with(|x| {
        let v = x.get();
        x.set(v.wrapping_mul(6364136223846793005).wrapping_add(1442695040888963407));
        v >> 33
    });
    let with_history = h % 3 == 0;
    if with_history {
        let prior = ((h >> 3) & 7) as u8;
        it.allow_errors(&allow_list(prior));
        if (h >> 6) & 1 == 1 {
            it.allow_errors(&allow_list(((h >> 7) & 7) as u8));
        }
        if let MaxSz::Set(_) = cfg.max_size {
            it.set_max_allowable_tag_size(*[None, Some(0usize), Some(7), Some(1 << 30)].get(((h >> 10) & 3) as usize).unwrap());
        }
        it.emit_master_end_when_eof((h >> 12) & 1 == 1);
    }
    if cfg.allow != 0 || with_history {
        // the list handed over is a list, not a set: now and then entries are repeated and the order is reversed
        let mut l = allow_list(cfg.allow);
        if !l.is_empty() && (h >> 14) & 3 == 0 {
            let k = ((h >> 16) as usize) % l.len();
            let dup = allow_list(cfg.allow).swap_remove(k);
            l.push(dup);
            if (h >> 20) & 1 == 1 {
                let dup2 = allow_list(cfg.allow).swap_remove(((h >> 21) as usize) % allow_list(cfg.allow).len());
                l.insert(0, dup2);
            }
            if (h >> 24) & 1 == 1 {
                l.reverse();
            }
        }
        it.allow_errors(&l);
    }
    if let MaxSz::Set(m) = cfg.max_size {
        it.set_max_allowable_tag_size(m);
    }
    if !cfg.eof_end || with_history {
        it.emit_master_end_when_eof(cfg.eof_end);
    }
    it
}

#[derive(Clone, Debug, PartialEq, Eq)]
pub enum Ev {
    Item(Item, usize),
    Err(ErrRec),
    None,
    Caught(Caught),
}

impl Ev {
    pub fn short(&self) -> String {
        match self {
            Ev::Item(i, o) => format!("{}@{}", i.short(), o),
            Ev::Err(e) => format!("Err({})", e.short()),
            Ev::None => "None".into(),
            Ev::Caught(c) => c.text(),
        }
    }
}

/// Logical step budget for one API call on an input of `len` bytes with `items` items so far. Its only purpose is to
/// tell "returns" from "never returns" (C05) without a wall clock: no property bounds the *work* of a call, and a correct
/// reader may well spend O(nesting depth) ticks per element (validating against every open master in an explicit, ticked
/// loop), i.e. O(len^2) per call on deeply nested input. The budget is therefore quadratic, capped so that a real endless
/// loop is still cut off within seconds.
pub fn step_budget(len: usize, items: usize) -> u64 {
    let n = len as u64 + items as u64 + 64;
    (64 * n * n.min(4096) + 4096).min(1 << 33)
}

thread_local! {
    /// (ReadErrors whose Error::source() leads to the original io::Error, ReadErrors where it does not)
    pub static SOURCE_CHAIN: std::cell::RefCell<(u64, u64)> = std::cell::RefCell::new((0, 0));
}

pub fn next_ev<R: Read>(it: &mut TagIterator<R, DynTag>, budget: u64) -> Ev {
    match guard(budget, || {
        let r = it.next();
        r.map(|x| x.map(|t| Item::from_tag(&t)).map_err(|e| ErrRec::from(&e)))
    }) {
        Err(c) => Ev::Caught(c),
        Ok(None) => Ev::None,
        Ok(Some(Ok(item))) => Ev::Item(item, it.last_emitted_tag_offset()),
        Ok(Some(Err(e))) => Ev::Err(e),
    }
}

pub fn recover_ev<R: Read>(it: &mut TagIterator<R, DynTag>, budget: u64) -> Result<Result<(), ErrRec>, Caught> {
    guard(budget, || it.try_recover().map_err(|e| ErrRec::from(&e)))
}

#[derive(Clone, Debug, PartialEq, Eq)]
pub struct Parse {
    pub items: Vec<(Item, usize)>,
    /// how the parse ended: Ev::None (clean), Ev::Err (first error), Ev::Caught
    pub end: Ev,
    pub steps: u64,
}

impl Parse {
    pub fn clean(&self) -> bool {
        self.end == Ev::None
    }
    pub fn values(&self) -> Vec<Item> {
        self.items.iter().map(|x| x.0.clone()).collect()
    }
    pub fn to_json(&self, max: usize) -> J {
        let mut v: Vec<J> = self.items.iter().take(max).map(|(i, o)| J::s(format!("{}@{}", i.short(), o))).collect();
        if self.items.len() > max {
            v.push(J::s(format!("...(+{} items)", self.items.len() - max)));
        }
        J::obj().set("items", J::Arr(v)).set("end", J::s(self.end.short()))
    }
}

/// Parse from a slice up to the first error (or `max_items`).
pub fn parse_slice(data: &[u8], cfg: &RCfg) -> Parse {
    let mut it = make_iter(data, cfg);
    let mut items = Vec::new();
    let mut steps = 0;
    let cap = 4 * data.len() + 64;
    loop {
        let ev = next_ev(&mut it, step_budget(data.len(), items.len()));
        steps += crate::obs::steps();
        match ev {
            Ev::Item(i, o) => {
                items.push((i, o));
                if items.len() > cap {
                    return Parse { items, end: Ev::Caught(Caught::Hang("more items than 4*len+64".into())), steps };
                }
            }
            other => return Parse { items, end: other, steps },
        }
    }
}

/// Parse from a scripted source up to the first error. Temporary EOFs (stops) are handled by continuing
/// after a `None` while the source still has data; `pauses` counts them. With pauses the iterator must return
/// `None` at each.
pub fn parse_scripted(src: ScriptedRead, cfg: &RCfg) -> (Parse, ScriptedRead, usize) {
    parse_scripted_fin(src, cfg, false)
}

/// As `parse_scripted`; with `finalize`, once the source is exhausted for good and the reader has returned None
/// (twice: an extra poll must change nothing), end-of-stream closing is switched on and the parse continues — the way a
/// live-stream consumer closes the document when it learns the stream is over.
pub fn parse_scripted_fin(src: ScriptedRead, cfg: &RCfg, finalize: bool) -> (Parse, ScriptedRead, usize) {
    let mut finalized = !finalize;
    let len = src.data.len();
    let mut it = make_iter(src, cfg);
    let mut items = Vec::new();
    let mut steps = 0;
    let mut pauses = 0;
    let cap = 4 * len + 64;
    let end;
    loop {
        it.get_mut().begin_api_call();
        let ev = next_ev(&mut it, step_budget(len, items.len()));
        steps += crate::obs::steps();
        match ev {
            Ev::Item(i, o) => {
                items.push((i, o));
                if items.len() > cap {
                    end = Ev::Caught(Caught::Hang("more items than 4*len+64".into()));
                    break;
                }
            }
            Ev::None => {
                if it.get_ref().at_stop() && pauses < len + 8 {
                    pauses += 1;
                    continue;
                }
                if !finalized {
                    finalized = true;
                    let again = next_ev(&mut it, step_budget(len, items.len()));
                    if again != Ev::None {
                        end = Ev::Caught(Caught::Hang(format!("a second poll at end of input returned {} instead of None", again.short())));
                        break;
                    }
                    it.emit_master_end_when_eof(true);
                    continue;
                }
                end = Ev::None;
                break;
            }
            other => {
                end = other;
                break;
            }
        }
    }
    let src = it.into_inner();
    (Parse { items, end, steps }, src, pauses)
}
