//! Deterministic PRNG (SplitMix64 seeding + xoshiro256**). No third-party crates.

#[derive(Clone, Debug)]
pub struct Rng {
    s: [u64; 4],
}

pub fn splitmix(x: &mut u64) -> u64 {
    *x = x.wrapping_add(0x9E37_79B9_7F4A_7C15);
    let mut z = *x;
    z = (z ^ (z >> 30)).wrapping_mul(0xBF58_476D_1CE4_E5B9);
    z = (z ^ (z >> 27)).wrapping_mul(0x94D0_49BB_1331_11EB);
    z ^ (z >> 31)
}

/// Hash-combine two words (used to derive per-case seeds and fingerprints).
pub fn mix(a: u64, b: u64) -> u64 {
    let mut x = a ^ b.rotate_left(32) ^ 0xD6E8_FEB8_6659_FD93;
    let r = splitmix(&mut x);
    r ^ splitmix(&mut x).rotate_left(17)
}

pub fn hash_bytes(b: &[u8]) -> u64 {
    let mut h = 0xcbf2_9ce4_8422_2325u64;
    for &x in b {
        h ^= x as u64;
        h = h.wrapping_mul(0x1000_0000_01b3);
    }
    mix(h, b.len() as u64)
}

pub fn hash_str(s: &str) -> u64 {
    hash_bytes(s.as_bytes())
}

impl Rng {
    pub fn new(seed: u64) -> Rng {
        let mut x = seed;
        let s = [splitmix(&mut x), splitmix(&mut x), splitmix(&mut x), splitmix(&mut x)];
        Rng { s }
    }
    pub fn next_u64(&mut self) -> u64 {
        let r = self.s[1].wrapping_mul(5).rotate_left(7).wrapping_mul(9);
        let t = self.s[1] << 17;
        self.s[2] ^= self.s[0];
        self.s[3] ^= self.s[1];
        self.s[1] ^= self.s[2];
        self.s[0] ^= self.s[3];
        self.s[2] ^= t;
        self.s[3] = self.s[3].rotate_left(45);
        r
    }
    /// uniform in 0..n (n > 0)
    pub fn below(&mut self, n: u64) -> u64 {
        debug_assert!(n > 0);
        ((self.next_u64() as u128 * n as u128) >> 64) as u64
    }
    pub fn usize_below(&mut self, n: usize) -> usize {
        self.below(n as u64) as usize
    }
    /// uniform in lo..=hi
    pub fn range(&mut self, lo: u64, hi: u64) -> u64 {
        debug_assert!(lo <= hi);
        if lo == 0 && hi == u64::MAX {
            return self.next_u64();
        }
        lo + self.below(hi - lo + 1)
    }
    pub fn urange(&mut self, lo: usize, hi: usize) -> usize {
        self.range(lo as u64, hi as u64) as usize
    }
    /// true with probability num/den
    pub fn chance(&mut self, num: u64, den: u64) -> bool {
        self.below(den) < num
    }
    pub fn pick<'a, T>(&mut self, xs: &'a [T]) -> &'a T {
        &xs[self.usize_below(xs.len())]
    }
    pub fn byte(&mut self) -> u8 {
        (self.next_u64() >> 56) as u8
    }
    pub fn bytes(&mut self, n: usize) -> Vec<u8> {
        let mut v = Vec::with_capacity(n);
        while v.len() < n {
            let w = self.next_u64().to_le_bytes();
            let k = (n - v.len()).min(8);
            v.extend_from_slice(&w[..k]);
        }
        v
    }
    pub fn shuffle<T>(&mut self, xs: &mut [T]) {
        for i in (1..xs.len()).rev() {
            let j = self.usize_below(i + 1);
            xs.swap(i, j);
        }
    }
    pub fn fork(&mut self) -> Rng {
        Rng::new(self.next_u64())
    }
}
