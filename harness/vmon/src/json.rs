//! Minimal JSON value, serializer and parser (no third-party crates).

use std::fmt::Write as _;

#[derive(Clone, Debug, PartialEq)]
pub enum J {
    Null,
    Bool(bool),
    Int(i64),
    UInt(u64),
    Num(f64),
    Str(String),
    Arr(Vec<J>),
    Obj(Vec<(String, J)>),
}

impl J {
    pub fn obj() -> J {
        J::Obj(Vec::new())
    }
    pub fn set(mut self, k: &str, v: J) -> J {
        if let J::Obj(ref mut o) = self {
            if let Some(e) = o.iter_mut().find(|e| e.0 == k) {
                e.1 = v;
            } else {
                o.push((k.to_string(), v));
            }
        }
        self
    }
    pub fn put(&mut self, k: &str, v: J) {
        if let J::Obj(ref mut o) = self {
            if let Some(e) = o.iter_mut().find(|e| e.0 == k) {
                e.1 = v;
            } else {
                o.push((k.to_string(), v));
            }
        }
    }
    pub fn get(&self, k: &str) -> Option<&J> {
        match self {
            J::Obj(o) => o.iter().find(|e| e.0 == k).map(|e| &e.1),
            _ => None,
        }
    }
    pub fn as_str(&self) -> Option<&str> {
        match self {
            J::Str(s) => Some(s),
            _ => None,
        }
    }
    pub fn as_u64(&self) -> Option<u64> {
        match self {
            J::UInt(u) => Some(*u),
            J::Int(i) if *i >= 0 => Some(*i as u64),
            J::Num(f) if *f >= 0.0 => Some(*f as u64),
            _ => None,
        }
    }
    pub fn as_arr(&self) -> Option<&Vec<J>> {
        match self {
            J::Arr(a) => Some(a),
            _ => None,
        }
    }
    pub fn s(x: impl Into<String>) -> J {
        J::Str(x.into())
    }
    pub fn u(x: impl TryInto<u64>) -> J {
        J::UInt(x.try_into().ok().unwrap_or(u64::MAX))
    }
    pub fn hex(b: &[u8]) -> J {
        J::Str(hex(b))
    }
    pub fn arr<T>(xs: impl IntoIterator<Item = T>, f: impl Fn(T) -> J) -> J {
        J::Arr(xs.into_iter().map(f).collect())
    }

    pub fn to_string(&self) -> String {
        let mut s = String::new();
        self.write(&mut s, 0, false);
        s
    }
    pub fn to_pretty(&self) -> String {
        let mut s = String::new();
        self.write(&mut s, 0, true);
        s.push('\n');
        s
    }
    fn write(&self, out: &mut String, ind: usize, pretty: bool) {
        match self {
            J::Null => out.push_str("null"),
            J::Bool(b) => out.push_str(if *b { "true" } else { "false" }),
            J::Int(i) => {
                let _ = write!(out, "{}", i);
            }
            J::UInt(u) => {
                let _ = write!(out, "{}", u);
            }
            J::Num(f) => {
                if f.is_finite() {
                    let _ = write!(out, "{}", f);
                    if f.fract() == 0.0 && !out.ends_with(|c: char| c == 'e' || c == '.') && f.abs() < 1e15 {
                        // keep it a number with decimal point for readability
                        out.push_str(".0");
                    }
                } else {
                    out.push_str("null");
                }
            }
            J::Str(s) => write_str(out, s),
            J::Arr(a) => {
                let simple = a.iter().all(|x| !matches!(x, J::Arr(_) | J::Obj(_)));
                out.push('[');
                for (i, x) in a.iter().enumerate() {
                    if i > 0 {
                        out.push(',');
                        if simple && pretty {
                            out.push(' ');
                        }
                    }
                    if pretty && !simple {
                        nl(out, ind + 1);
                    }
                    x.write(out, ind + 1, pretty);
                }
                if pretty && !simple && !a.is_empty() {
                    nl(out, ind);
                }
                out.push(']');
            }
            J::Obj(o) => {
                out.push('{');
                for (i, (k, v)) in o.iter().enumerate() {
                    if i > 0 {
                        out.push(',');
                    }
                    if pretty {
                        nl(out, ind + 1);
                    }
                    write_str(out, k);
                    out.push(':');
                    if pretty {
                        out.push(' ');
                    }
                    v.write(out, ind + 1, pretty);
                }
                if pretty && !o.is_empty() {
                    nl(out, ind);
                }
                out.push('}');
            }
        }
    }
}

fn nl(out: &mut String, ind: usize) {
    out.push('\n');
    for _ in 0..ind {
        out.push_str("  ");
    }
}

fn write_str(out: &mut String, s: &str) {
    out.push('"');
    for c in s.chars() {
        match c {
            '"' => out.push_str("\\\""),
            '\\' => out.push_str("\\\\"),
            '\n' => out.push_str("\\n"),
            '\r' => out.push_str("\\r"),
            '\t' => out.push_str("\\t"),
            c if (c as u32) < 0x20 => {
                let _ = write!(out, "\\u{:04x}", c as u32);
            }
            c => out.push(c),
        }
    }
    out.push('"');
}

pub fn hex(b: &[u8]) -> String {
    let mut s = String::with_capacity(b.len() * 2);
    for x in b {
        let _ = write!(s, "{:02x}", x);
    }
    s
}

/// Hex with elision for long buffers (for human-readable samples).
pub fn hex_short(b: &[u8], max: usize) -> String {
    if b.len() <= max {
        hex(b)
    } else {
        format!("{}..(+{} bytes)", hex(&b[..max]), b.len() - max)
    }
}

pub fn unhex(s: &str) -> Option<Vec<u8>> {
    if s.len() % 2 != 0 {
        return None;
    }
    let b = s.as_bytes();
    let mut v = Vec::with_capacity(s.len() / 2);
    for i in (0..b.len()).step_by(2) {
        let h = (b[i] as char).to_digit(16)?;
        let l = (b[i + 1] as char).to_digit(16)?;
        v.push((h * 16 + l) as u8);
    }
    Some(v)
}

// ---------------------------------------------------------------- parser

pub fn parse(s: &str) -> Result<J, String> {
    let b = s.as_bytes();
    let mut p = 0usize;
    let v = pv(b, &mut p)?;
    ws(b, &mut p);
    if p != b.len() {
        return Err(format!("trailing data at {}", p));
    }
    Ok(v)
}

fn ws(b: &[u8], p: &mut usize) {
    while *p < b.len() && matches!(b[*p], b' ' | b'\n' | b'\r' | b'\t') {
        *p += 1;
    }
}

fn pv(b: &[u8], p: &mut usize) -> Result<J, String> {
    ws(b, p);
    if *p >= b.len() {
        return Err("eof".into());
    }
    match b[*p] {
        b'{' => {
            *p += 1;
            let mut o = Vec::new();
            ws(b, p);
            if *p < b.len() && b[*p] == b'}' {
                *p += 1;
                return Ok(J::Obj(o));
            }
            loop {
                ws(b, p);
                let k = match pv(b, p)? {
                    J::Str(s) => s,
                    _ => return Err("key".into()),
                };
                ws(b, p);
                if *p >= b.len() || b[*p] != b':' {
                    return Err(format!("expected : at {}", p));
                }
                *p += 1;
                let v = pv(b, p)?;
                o.push((k, v));
                ws(b, p);
                if *p < b.len() && b[*p] == b',' {
                    *p += 1;
                    continue;
                }
                if *p < b.len() && b[*p] == b'}' {
                    *p += 1;
                    return Ok(J::Obj(o));
                }
                return Err(format!("expected , or }} at {}", p));
            }
        }
        b'[' => {
            *p += 1;
            let mut a = Vec::new();
            ws(b, p);
            if *p < b.len() && b[*p] == b']' {
                *p += 1;
                return Ok(J::Arr(a));
            }
            loop {
                a.push(pv(b, p)?);
                ws(b, p);
                if *p < b.len() && b[*p] == b',' {
                    *p += 1;
                    continue;
                }
                if *p < b.len() && b[*p] == b']' {
                    *p += 1;
                    return Ok(J::Arr(a));
                }
                return Err(format!("expected , or ] at {}", p));
            }
        }
        b'"' => {
            *p += 1;
            let mut s = String::new();
            loop {
                if *p >= b.len() {
                    return Err("eof in string".into());
                }
                match b[*p] {
                    b'"' => {
                        *p += 1;
                        return Ok(J::Str(s));
                    }
                    b'\\' => {
                        *p += 1;
                        if *p >= b.len() {
                            return Err("eof".into());
                        }
                        match b[*p] {
                            b'n' => s.push('\n'),
                            b'r' => s.push('\r'),
                            b't' => s.push('\t'),
                            b'b' => s.push('\u{8}'),
                            b'f' => s.push('\u{c}'),
                            b'u' => {
                                let h = std::str::from_utf8(&b[*p + 1..*p + 5]).map_err(|e| e.to_string())?;
                                let c = u32::from_str_radix(h, 16).map_err(|e| e.to_string())?;
                                s.push(char::from_u32(c).unwrap_or('?'));
                                *p += 4;
                            }
                            c => s.push(c as char),
                        }
                        *p += 1;
                    }
                    _ => {
                        // copy one utf-8 char
                        let st = *p;
                        *p += 1;
                        while *p < b.len() && (b[*p] & 0xC0) == 0x80 {
                            *p += 1;
                        }
                        s.push_str(std::str::from_utf8(&b[st..*p]).map_err(|e| e.to_string())?);
                    }
                }
            }
        }
        b't' if b[*p..].starts_with(b"true") => {
            *p += 4;
            Ok(J::Bool(true))
        }
        b'f' if b[*p..].starts_with(b"false") => {
            *p += 5;
            Ok(J::Bool(false))
        }
        b'n' if b[*p..].starts_with(b"null") => {
            *p += 4;
            Ok(J::Null)
        }
        _ => {
            let st = *p;
            while *p < b.len() && matches!(b[*p], b'0'..=b'9' | b'-' | b'+' | b'.' | b'e' | b'E') {
                *p += 1;
            }
            let t = std::str::from_utf8(&b[st..*p]).map_err(|e| e.to_string())?;
            if let Ok(u) = t.parse::<u64>() {
                Ok(J::UInt(u))
            } else if let Ok(i) = t.parse::<i64>() {
                Ok(J::Int(i))
            } else if let Ok(f) = t.parse::<f64>() {
                Ok(J::Num(f))
            } else {
                Err(format!("bad token at {}", st))
            }
        }
    }
}
