//! Counting global allocator: per-thread measurement windows (live bytes, peak, largest request)
//! and a hard ceiling that turns a runaway allocation into a reportable event instead of an OOM abort.

use std::alloc::{GlobalAlloc, Layout, System};
use std::cell::Cell;
use std::sync::atomic::{AtomicU64, Ordering};

pub struct CountingAlloc;

thread_local! {
    static ACTIVE: Cell<bool> = const { Cell::new(false) };
    static CUR: Cell<i64> = const { Cell::new(0) };
    static PEAK: Cell<i64> = const { Cell::new(0) };
    static MAXREQ: Cell<u64> = const { Cell::new(0) };
    static NALLOC: Cell<u64> = const { Cell::new(0) };
    pub static CASE_IDX: Cell<u64> = const { Cell::new(u64::MAX) };
}

/// Property currently running (packed ascii, e.g. "C17") for the ceiling record.
pub static PROP_TAG: AtomicU64 = AtomicU64::new(0);
/// Single requests above this many bytes are refused: record + _exit(101).
pub static CEILING: AtomicU64 = AtomicU64::new(1 << 30);

extern "C" {
    fn write(fd: i32, buf: *const u8, n: usize) -> isize;
    fn _exit(code: i32) -> !;
}

fn put_num(buf: &mut [u8], pos: &mut usize, mut v: u64) {
    let mut tmp = [0u8; 20];
    let mut n = 0;
    if v == 0 {
        tmp[0] = b'0';
        n = 1;
    }
    while v > 0 {
        tmp[n] = b'0' + (v % 10) as u8;
        v /= 10;
        n += 1;
    }
    for i in (0..n).rev() {
        buf[*pos] = tmp[i];
        *pos += 1;
    }
}

fn put_str(buf: &mut [u8], pos: &mut usize, s: &[u8]) {
    for b in s {
        buf[*pos] = *b;
        *pos += 1;
    }
}

#[cold]
fn ceiling_hit(size: usize) -> ! {
    let mut buf = [0u8; 128];
    let mut p = 0;
    put_str(&mut buf, &mut p, b"\nALLOC-CEILING prop=");
    let tag = PROP_TAG.load(Ordering::Relaxed).to_be_bytes();
    for b in tag.iter().filter(|b| **b != 0) {
        buf[p] = *b;
        p += 1;
    }
    put_str(&mut buf, &mut p, b" case=");
    let idx = CASE_IDX.try_with(|c| c.get()).unwrap_or(u64::MAX);
    put_num(&mut buf, &mut p, idx);
    put_str(&mut buf, &mut p, b" size=");
    put_num(&mut buf, &mut p, size as u64);
    put_str(&mut buf, &mut p, b"\n");
    unsafe {
        write(2, buf.as_ptr(), p);
        _exit(101);
    }
}

#[inline]
fn on_alloc(size: usize) {
    if size as u64 > CEILING.load(Ordering::Relaxed) {
        ceiling_hit(size);
    }
    let _ = ACTIVE.try_with(|a| {
        if a.get() {
            CUR.with(|c| {
                let v = c.get() + size as i64;
                c.set(v);
                PEAK.with(|p| {
                    if v > p.get() {
                        p.set(v)
                    }
                });
            });
            MAXREQ.with(|m| {
                if size as u64 > m.get() {
                    m.set(size as u64)
                }
            });
            NALLOC.with(|n| n.set(n.get() + 1));
        }
    });
}

#[inline]
fn on_free(size: usize) {
    let _ = ACTIVE.try_with(|a| {
        if a.get() {
            CUR.with(|c| c.set(c.get() - size as i64));
        }
    });
}

unsafe impl GlobalAlloc for CountingAlloc {
    unsafe fn alloc(&self, l: Layout) -> *mut u8 {
        on_alloc(l.size());
        System.alloc(l)
    }
    unsafe fn alloc_zeroed(&self, l: Layout) -> *mut u8 {
        on_alloc(l.size());
        System.alloc_zeroed(l)
    }
    unsafe fn dealloc(&self, p: *mut u8, l: Layout) {
        on_free(l.size());
        System.dealloc(p, l)
    }
    unsafe fn realloc(&self, p: *mut u8, l: Layout, new_size: usize) -> *mut u8 {
        // a realloc may transiently hold both blocks: count the new one before releasing the old
        on_alloc(new_size);
        let r = System.realloc(p, l, new_size);
        on_free(l.size());
        r
    }
}

#[derive(Clone, Copy, Debug, Default)]
pub struct Window {
    /// peak growth of live heap bytes inside the window, relative to its start
    pub peak: u64,
    pub max_request: u64,
    pub allocs: u64,
    /// net growth at the end of the window
    pub net: i64,
}

/// Measure allocations made by `f` on this thread. The closure must not do harness-side formatting.
pub fn measure<T>(f: impl FnOnce() -> T) -> (T, Window) {
    CUR.with(|c| c.set(0));
    PEAK.with(|c| c.set(0));
    MAXREQ.with(|c| c.set(0));
    NALLOC.with(|c| c.set(0));
    ACTIVE.with(|a| a.set(true));
    let r = f();
    ACTIVE.with(|a| a.set(false));
    let w = Window { peak: PEAK.with(|c| c.get()).max(0) as u64, max_request: MAXREQ.with(|c| c.get()), allocs: NALLOC.with(|c| c.get()), net: CUR.with(|c| c.get()) };
    (r, w)
}

pub fn set_prop_tag(p: &str) {
    let mut v = 0u64;
    for b in p.bytes().take(8) {
        v = (v << 8) | b as u64;
    }
    PROP_TAG.store(v, Ordering::Relaxed);
}
