//! Writer driver: call histories, guarded calls on the real TagWriter, normalised results.

use crate::io::ScriptedWrite;
use crate::json::{hex_short, J};
use crate::obs::{guard, Caught};
use crate::refcodec::{Node, SizeOpt};
use crate::spec::{DynTag, Item};
use ebml_iterable::error::TagWriterError;
use ebml_iterable::{TagWriter, WriteOptions};
use std::io::Write;

#[derive(Clone, Debug, PartialEq, Eq, Hash)]
pub enum WCall {
    /// write()/write_advanced() of an item (Start/End/Full/leaf/Raw) with a size option
    Write(Item, SizeOpt),
    /// deprecated write_unknown_size()
    DeprecatedUnknown(Item),
    WriteRaw(u64, Vec<u8>),
    Flush,
}

impl WCall {
    pub fn short(&self) -> String {
        match self {
            WCall::Write(i, SizeOpt::Default) => format!("write({})", i.short()),
            WCall::Write(i, SizeOpt::Width(w)) => format!("write_advanced({},width={})", i.short(), w),
            WCall::Write(i, SizeOpt::Unknown) => format!("write_advanced({},unknown)", i.short()),
            WCall::DeprecatedUnknown(i) => format!("write_unknown_size({})", i.short()),
            WCall::WriteRaw(id, d) => format!("write_raw({:x},{})", id, hex_short(d, 12)),
            WCall::Flush => "flush()".into(),
        }
    }
}

pub fn calls_json(calls: &[WCall], max: usize) -> J {
    let mut v: Vec<J> = calls.iter().take(max).map(|c| J::s(c.short())).collect();
    if calls.len() > max {
        v.push(J::s(format!("...(+{} calls)", calls.len() - max)));
    }
    J::Arr(v)
}

#[derive(Clone, Debug, PartialEq, Eq, Hash)]
pub enum WErr {
    UnexpectedTag { id: u64, path: Vec<u64> },
    TagId(u64),
    TagSize(String),
    UnexpectedClosing { id: u64, expected: Option<u64> },
    Io { kind: String, msg: String },
}

impl WErr {
    pub fn from(e: &TagWriterError) -> WErr {
        match e {
            TagWriterError::UnexpectedTag { tag_id, current_path } => WErr::UnexpectedTag { id: *tag_id, path: current_path.clone() },
            TagWriterError::TagIdError(i) => WErr::TagId(*i),
            TagWriterError::TagSizeError(s) => WErr::TagSize(s.chars().take(50).collect()),
            TagWriterError::UnexpectedClosingTag { tag_id, expected_id } => WErr::UnexpectedClosing { id: *tag_id, expected: *expected_id },
            TagWriterError::WriteError { source } => WErr::Io { kind: format!("{:?}", source.kind()), msg: source.to_string() },
        }
    }
    pub fn kind(&self) -> &'static str {
        match self {
            WErr::UnexpectedTag { .. } => "UnexpectedTag",
            WErr::TagId(_) => "TagIdError",
            WErr::TagSize(_) => "TagSizeError",
            WErr::UnexpectedClosing { .. } => "UnexpectedClosingTag",
            WErr::Io { .. } => "WriteError",
        }
    }
}

#[derive(Clone, Debug, PartialEq, Eq)]
pub enum WRes {
    Ok,
    Err(WErr),
    Caught(Caught),
}

impl WRes {
    pub fn is_ok(&self) -> bool {
        matches!(self, WRes::Ok)
    }
    pub fn kind(&self) -> String {
        match self {
            WRes::Ok => "Ok".into(),
            WRes::Err(e) => e.kind().into(),
            WRes::Caught(c) => c.sig(),
        }
    }
    pub fn short(&self) -> String {
        match self {
            WRes::Ok => "Ok".into(),
            WRes::Err(e) => format!("Err({:x?})", e),
            WRes::Caught(c) => c.text(),
        }
    }
}

const WSTEPS: u64 = 1 << 22;

pub fn do_call<W: Write>(w: &mut TagWriter<W>, c: &WCall) -> WRes {
    let r = guard(WSTEPS, || match c {
        WCall::Write(item, opt) => {
            let tag: DynTag = item.to_tag();
            match opt {
                SizeOpt::Default => w.write(&tag),
                SizeOpt::Width(n) => w.write_advanced(&tag, WriteOptions::set_size_byte_count(*n)),
                SizeOpt::Unknown => w.write_advanced(&tag, WriteOptions::is_unknown_sized_element()),
            }
        }
        WCall::DeprecatedUnknown(item) => {
            let tag: DynTag = item.to_tag();
            #[allow(deprecated)]
            w.write_unknown_size(&tag)
        }
        WCall::WriteRaw(id, d) => w.write_raw(*id, d),
        WCall::Flush => w.flush(),
    });
    match r {
        Err(c) => WRes::Caught(c),
        Ok(Ok(())) => WRes::Ok,
        Ok(Err(e)) => WRes::Err(WErr::from(&e)),
    }
}

pub fn finish<W: Write>(w: TagWriter<W>) -> Result<Result<W, WErr>, Caught> {
    guard(WSTEPS, move || w.into_inner().map_err(|e| WErr::from(&e)))
}

/// Result of running a whole call history against a fresh writer.
#[derive(Clone, Debug)]
pub struct WRun {
    pub results: Vec<WRes>,
    /// destination length after each call
    pub lens: Vec<usize>,
    pub fin: WRes,
    pub bytes: Vec<u8>,
    pub dest_calls: usize,
    pub dest_flushes: usize,
}

impl WRun {
    pub fn all_ok(&self) -> bool {
        self.results.iter().all(|r| r.is_ok()) && self.fin.is_ok()
    }
    pub fn first_fail(&self) -> Option<(usize, &WRes)> {
        self.results.iter().enumerate().find(|(_, r)| !r.is_ok())
    }
}

/// Run `calls` then `into_inner()`. Continues after errors (the writer is not poisoned by contract).
pub fn run_calls(calls: &[WCall], sink: ScriptedWrite) -> WRun {
    let mut w = TagWriter::new(sink);
    let mut results = Vec::with_capacity(calls.len());
    let mut lens = Vec::with_capacity(calls.len());
    for c in calls {
        let r = do_call(&mut w, c);
        // the destination is looked at through get_ref() and get_mut() alternately: both are plain accessors
        let seen = if lens.len() % 2 == 1 { w.get_mut().data.len() } else { w.get_ref().data.len() };
        lens.push(seen);
        let stop = matches!(r, WRes::Caught(_));
        results.push(r);
        if stop {
            let s = w.get_ref().clone();
            return WRun { results, lens, fin: WRes::Caught(Caught::Panic("aborted after earlier panic".into())), bytes: s.data, dest_calls: s.calls, dest_flushes: s.flushes };
        }
    }
    let snapshot = w.get_ref().clone();
    match finish(w) {
        Err(c) => WRun { results, lens, fin: WRes::Caught(c), bytes: snapshot.data, dest_calls: snapshot.calls, dest_flushes: snapshot.flushes },
        Ok(Err(e)) => WRun { results, lens, fin: WRes::Err(e), bytes: snapshot.data, dest_calls: snapshot.calls, dest_flushes: snapshot.flushes },
        Ok(Ok(s)) => WRun { results, lens, fin: WRes::Ok, bytes: s.data, dest_calls: s.calls, dest_flushes: s.flushes },
    }
}

/// Turn a semantic tree into a call history. `collapse(node)` decides whether a master subtree is
/// presented as one `Full` item (only honoured when every descendant uses default options, since `Full`
/// children cannot carry options). `deprecated`: use write_unknown_size() for unknown-size masters.
pub fn calls_from_tree(nodes: &[Node], collapse: &mut dyn FnMut(&Node) -> bool, deprecated: bool) -> Vec<WCall> {
    let mut out = Vec::new();
    for n in nodes {
        emit(n, collapse, deprecated, &mut out);
    }
    out
}

/// A master can be presented as one Full item when its descendants all use default options (children of a Full cannot
/// carry options); its own option — default, explicit width or unknown size — goes with the Full item.
pub fn collapsible(n: &Node) -> bool {
    n.is_master() && n.children.iter().all(all_default)
}

fn all_default(n: &Node) -> bool {
    n.opt == SizeOpt::Default && n.children.iter().all(all_default)
}

fn emit(n: &Node, collapse: &mut dyn FnMut(&Node) -> bool, deprecated: bool, out: &mut Vec<WCall>) {
    if !n.is_master() {
        out.push(WCall::Write(n.item.clone(), n.opt));
        return;
    }
    if collapsible(n) && collapse(n) {
        out.push(WCall::Write(n.to_full(), n.opt));
        return;
    }
    if n.opt == SizeOpt::Unknown && deprecated {
        out.push(WCall::DeprecatedUnknown(Item::Start(n.id())));
    } else {
        out.push(WCall::Write(Item::Start(n.id()), n.opt));
    }
    for c in &n.children {
        emit(c, collapse, deprecated, out);
    }
    out.push(WCall::Write(Item::End(n.id()), SizeOpt::Default));
}
