//! Case runner: deterministic per-case seeds, worker threads, three-valued verdicts, evidence,
//! replay files, known-findings matching.

use crate::json::J;
use crate::prng::{hash_str, mix, Rng};
use std::collections::{BTreeMap, HashSet};
use std::panic::{catch_unwind, AssertUnwindSafe};
use std::sync::atomic::{AtomicU64, Ordering};
use std::sync::Mutex;
use std::time::Instant;

#[derive(Clone, Copy, Debug, PartialEq, Eq)]
pub enum Tier {
    Quick,
    Thorough,
}

impl Tier {
    pub fn name(self) -> &'static str {
        match self {
            Tier::Quick => "quick",
            Tier::Thorough => "thorough",
        }
    }
    pub fn pick<T>(self, q: T, t: T) -> T {
        match self {
            Tier::Quick => q,
            Tier::Thorough => t,
        }
    }
}

#[derive(Clone, Debug)]
pub struct Viol {
    /// narrow, case-derived signature `<prop>/<clause>/<features>` (matched against known findings)
    pub sig: String,
    pub msg: String,
    pub witness: J,
}

/// What one case reports back.
pub struct Case {
    pub idx: u64,
    pub tier: Tier,
    pub rng: Rng,
    pub verbose: bool,
    pub evals: u64,
    pub distinct: Vec<u64>,
    pub viols: Vec<Viol>,
    pub counters: BTreeMap<String, u64>,
    pub sample: Option<J>,
}

impl Case {
    pub fn count(&mut self, k: &str) {
        *self.counters.entry(k.to_string()).or_insert(0) += 1;
    }
    pub fn add(&mut self, k: &str, n: u64) {
        *self.counters.entry(k.to_string()).or_insert(0) += n;
    }
    pub fn max(&mut self, k: &str, n: u64) {
        let e = self.counters.entry(format!("max_{}", k)).or_insert(0);
        if n > *e {
            *e = n;
        }
    }
    /// one execution of the code under test was observed by an oracle
    pub fn eval(&mut self) {
        self.evals += 1;
    }
    /// register a distinct non-trivial case fingerprint
    pub fn nontrivial(&mut self, fp: u64) {
        self.distinct.push(fp);
    }
    pub fn violation(&mut self, sig: impl Into<String>, msg: impl Into<String>, witness: J) {
        let sig = sig.into();
        let msg = msg.into();
        if self.verbose {
            eprintln!("violation {}: {}\n{}", sig, msg, witness.to_pretty());
        }
        *self.counters.entry("violating_observations".to_string()).or_insert(0) += 1;
        if self.viols.len() < 32 && !self.viols.iter().any(|v| v.sig == sig) {
            self.viols.push(Viol { sig, msg, witness });
        }
    }
    pub fn set_sample(&mut self, j: J) {
        if self.sample.is_none() {
            self.sample = Some(j);
        }
    }
}

pub struct PropDef {
    pub id: &'static str,
    pub level: &'static str,
    pub rule: &'static str,
    pub assumptions: &'static [&'static str],
    pub cases_quick: u64,
    pub cases_thorough: u64,
    /// counters that must reach a minimum for the run to count as "held" (else inconclusive)
    pub floors: &'static [(&'static str, u64)],
    pub exhaustive_note: Option<&'static str>,
    pub run: fn(&mut Case),
}

#[derive(Default)]
struct Summary {
    evals: u64,
    distinct: HashSet<u64>,
    counters: BTreeMap<String, u64>,
    samples: Vec<(u64, J)>,
    viols: Vec<(u64, Viol)>,
    viol_count: u64,
    sigs: BTreeMap<String, u64>,
    harness_errors: Vec<String>,
}

/// every case runs on a thread with this stack size (workers, replays, traced and isolated runs alike), so that
/// a stack overflow reproduces identically
pub const WORKER_STACK: usize = 8 << 20;

/// Run one case on a fresh thread with the standard worker stack size.
pub fn run_one_threaded(def: &'static PropDef, tier: Tier, seed: u64, idx: u64, verbose: bool) -> Result<Case, String> {
    std::thread::Builder::new().stack_size(WORKER_STACK).spawn(move || run_one(def, tier, seed, idx, verbose)).expect("spawn").join().unwrap_or_else(|_| Err("case thread panicked".into()))
}

pub fn case_rng(prop: &str, seed: u64, idx: u64) -> Rng {
    Rng::new(mix(mix(seed, hash_str(prop)), idx))
}

pub fn run_one(def: &PropDef, tier: Tier, seed: u64, idx: u64, verbose: bool) -> Result<Case, String> {
    let mut c = Case { idx, tier, rng: case_rng(def.id, seed, idx), verbose, evals: 0, distinct: vec![], viols: vec![], counters: BTreeMap::new(), sample: None };
    crate::alloc::CASE_IDX.with(|x| x.set(idx));
    crate::rd::CFG_HIST.with(|x| x.set(mix(mix(seed, hash_str(def.id)), idx ^ 0xC0F1_6000)));
    let _ = crate::obs::take_last_panic();
    let r = catch_unwind(AssertUnwindSafe(|| (def.run)(&mut c)));
    match r {
        Ok(()) => Ok(c),
        Err(_) => Err(format!("harness panic in case {}: {}", idx, crate::obs::take_last_panic().unwrap_or_default())),
    }
}

pub struct Outcome {
    pub exit: i32,
}

fn verif_dir() -> String {
    std::env::var("VERIF_DIR").unwrap_or_else(|_| "/verif".to_string())
}

struct Known {
    sig: String,
    what: String,
    status: String,
}

fn load_known(prop: &str) -> Vec<Known> {
    let p = format!("{}/known_findings.json", verif_dir());
    let txt = match std::fs::read_to_string(&p) {
        Ok(t) => t,
        Err(_) => return vec![],
    };
    let j = match crate::json::parse(&txt) {
        Ok(j) => j,
        Err(e) => {
            eprintln!("warning: cannot parse {}: {}", p, e);
            return vec![];
        }
    };
    let mut out = vec![];
    if let Some(arr) = j.get("findings").and_then(|f| f.as_arr()) {
        for f in arr {
            if f.get("property").and_then(|x| x.as_str()) == Some(prop) {
                out.push(Known {
                    sig: f.get("signature").and_then(|x| x.as_str()).unwrap_or("").to_string(),
                    what: f.get("what").and_then(|x| x.as_str()).unwrap_or("").to_string(),
                    status: f.get("status").and_then(|x| x.as_str()).unwrap_or("").to_string(),
                });
            }
        }
    }
    out
}

pub fn run_prop(def: &'static PropDef, tier: Tier, seed: u64, threads: usize, case_override: Option<u64>) -> Outcome {
    let t0 = Instant::now();
    let total = case_override.unwrap_or(tier.pick(def.cases_quick, def.cases_thorough));
    let next = AtomicU64::new(0);
    let sum = Mutex::new(Summary::default());
    crate::alloc::set_prop_tag(def.id);
    let max_wall = std::env::var("VERIF_MAX_WALL_S").ok().and_then(|s| s.parse::<u64>().ok()).unwrap_or(tier.pick(600, 3600));
    let timed_out = std::sync::atomic::AtomicBool::new(false);

    std::thread::scope(|s| {
        for _ in 0..threads {
            std::thread::Builder::new().stack_size(WORKER_STACK).spawn_scoped(s, || loop {
                let idx = next.fetch_add(1, Ordering::Relaxed);
                if idx >= total {
                    break;
                }
                if t0.elapsed().as_secs() > max_wall {
                    timed_out.store(true, Ordering::Relaxed);
                    break;
                }
                match run_one(def, tier, seed, idx, false) {
                    Ok(c) => {
                        let mut g = sum.lock().unwrap();
                        g.evals += c.evals;
                        for d in c.distinct {
                            g.distinct.insert(d);
                        }
                        for (k, v) in c.counters {
                            if k.starts_with("max_") {
                                let e = g.counters.entry(k).or_insert(0);
                                if v > *e {
                                    *e = v;
                                }
                            } else {
                                *g.counters.entry(k).or_insert(0) += v;
                            }
                        }
                        if let Some(sm) = c.sample {
                            if g.samples.len() < 64 {
                                g.samples.push((idx, sm));
                            }
                        }
                        for v in c.viols {
                            g.viol_count += 1;
                            let n = g.sigs.entry(v.sig.clone()).or_insert(0);
                            *n += 1;
                            if *n <= 2 && g.viols.len() < 60 {
                                g.viols.push((idx, v));
                            }
                        }
                    }
                    Err(e) => {
                        let mut g = sum.lock().unwrap();
                        if g.harness_errors.len() < 10 {
                            g.harness_errors.push(e);
                        }
                    }
                }
            }).expect("spawn worker thread");
        }
    });

    let mut g = sum.into_inner().unwrap();
    g.samples.sort_by_key(|s| s.0);
    g.viols.sort_by_key(|v| v.0);
    let wall = t0.elapsed().as_secs_f64();

    // Re-execute each recorded violation from its case index: only reproducible ones are reported.
    let mut confirmed: Vec<(u64, Viol)> = Vec::new();
    let mut flaky: Vec<String> = Vec::new();
    let mut seen_sig: HashSet<String> = HashSet::new();
    for (idx, v) in &g.viols {
        if seen_sig.contains(&v.sig) {
            continue;
        }
        match run_one_threaded(def, tier, seed, *idx, false) {
            Ok(c2) if c2.viols.iter().any(|x| x.sig == v.sig) => {
                seen_sig.insert(v.sig.clone());
                confirmed.push((*idx, v.clone()));
            }
            _ => flaky.push(format!("case {} signature {} did not reproduce", idx, v.sig)),
        }
    }

    let known = load_known(def.id);
    let vdir = verif_dir();
    let mut new_viols: Vec<(u64, Viol, String)> = Vec::new();
    let mut known_hit: BTreeMap<String, (String, u64)> = BTreeMap::new();
    for (idx, v) in &confirmed {
        if let Some(k) = known.iter().find(|k| k.status == "open" && k.sig == v.sig) {
            known_hit.insert(k.sig.clone(), (k.what.clone(), *g.sigs.get(&v.sig).unwrap_or(&1)));
        } else {
            let dir = format!("{}/replays/{}", vdir, def.id);
            let _ = std::fs::create_dir_all(&dir);
            let fname = format!("{}/{}-seed{}-case{}.json", dir, v.sig.replace('/', "_").replace(|c: char| !(c.is_ascii_alphanumeric() || c == '_' || c == '-' || c == '.'), ""), seed, idx);
            let rj = J::obj()
                .set("property", J::s(def.id))
                .set("tier", J::s(tier.name()))
                .set("seed", J::u(seed))
                .set("case", J::u(*idx))
                .set("signature", J::s(v.sig.clone()))
                .set("message", J::s(v.msg.clone()))
                .set("witness", v.witness.clone())
                .set("replay_cmd", J::s(format!("./check --replay {}", fname)));
            let _ = std::fs::write(&fname, rj.to_pretty());
            new_viols.push((*idx, v.clone(), fname));
        }
    }

    // coverage floors
    let mut floor_fail: Vec<String> = Vec::new();
    if case_override.is_none() {
        for (k, min) in def.floors {
            let have = if *k == "distinct_nontrivial" { g.distinct.len() as u64 } else { *g.counters.get(*k).unwrap_or(&0) };
            if have < *min {
                floor_fail.push(format!("coverage floor not reached: {} = {} < {}", k, have, min));
            }
        }
    }

    let inconclusive = !g.harness_errors.is_empty() || !flaky.is_empty() || timed_out.load(Ordering::Relaxed) || (!floor_fail.is_empty() && new_viols.is_empty());
    let verdict = if !new_viols.is_empty() {
        "violated"
    } else if inconclusive {
        "inconclusive"
    } else if !known_hit.is_empty() {
        "held-except-known-findings"
    } else {
        "held"
    };

    // evidence
    let mut cov = J::obj()
        .set("evaluations", J::u(g.evals))
        .set("distinct_nontrivial", J::u(g.distinct.len()))
        .set("rule", J::s(def.rule))
        .set("cases", J::u(total))
        .set("samples", J::Arr(g.samples.iter().take(4).map(|s| s.1.clone().set("case", J::u(s.0))).collect()));
    if let Some(n) = def.exhaustive_note {
        cov.put("exhaustive_subspaces", J::s(n));
    }
    let mut ctr = J::obj();
    for (k, v) in &g.counters {
        ctr.put(k, J::u(*v));
    }
    cov.put("observed", ctr);
    let ev = J::obj()
        .set("property_id", J::s(def.id))
        .set("tier", J::s(tier.name()))
        .set("seed", J::u(seed))
        .set("level", J::s(def.level))
        .set("coverage", cov)
        .set("assumptions", J::Arr(def.assumptions.iter().map(|a| J::s(*a)).collect()))
        .set("wall_s", J::Num((wall * 100.0).round() / 100.0))
        .set("violations", J::u(new_viols.len()))
        .set("verdict", J::s(verdict))
        .set("known_findings_observed", J::Arr(known_hit.iter().map(|(s, (w, n))| J::obj().set("signature", J::s(s.clone())).set("what", J::s(w.clone())).set("occurrences", J::u(*n))).collect()))
        .set("new_violation_signatures", J::Arr(new_viols.iter().map(|v| J::s(v.1.sig.clone())).collect()))
        .set("inconclusive_reasons", J::Arr(g.harness_errors.iter().chain(flaky.iter()).chain(floor_fail.iter()).map(|s| J::s(s.clone())).collect()))
        .set("threads", J::u(threads));
    let _ = std::fs::create_dir_all(format!("{}/evidence", vdir));
    let evp = format!("{}/evidence/{}.json", vdir, def.id);
    if case_override.is_none() {
        if let Err(e) = std::fs::write(&evp, ev.to_pretty()) {
            eprintln!("cannot write evidence {}: {}", evp, e);
        }
    }

    println!(
        "[{}] tier={} seed={} cases={} evaluations={} distinct_nontrivial={} wall={:.1}s verdict={}",
        def.id,
        tier.name(),
        seed,
        total,
        g.evals,
        g.distinct.len(),
        wall,
        verdict
    );
    for (k, v) in &g.counters {
        println!("    {} = {}", k, v);
    }
    for (sig, (what, n)) in &known_hit {
        println!("KNOWN-FINDING: property={} {} [{}; {} occurrences this run]", def.id, what, sig, n);
    }
    for (idx, v, f) in &new_viols {
        println!("  case {} signature {}: {}", idx, v.sig, v.msg);
        println!("VIOLATION property={} replay={}", def.id, f);
    }
    for e in g.harness_errors.iter().chain(flaky.iter()) {
        println!("INCONCLUSIVE property={} {}", def.id, e);
    }
    if new_viols.is_empty() {
        for e in &floor_fail {
            println!("INCONCLUSIVE property={} {}", def.id, e);
        }
    }
    if timed_out.load(Ordering::Relaxed) {
        println!("INCONCLUSIVE property={} wall-clock cap of {}s reached before all cases ran", def.id, max_wall);
    }
    Outcome { exit: if !new_viols.is_empty() { 1 } else if inconclusive { 2 } else { 0 } }
}
