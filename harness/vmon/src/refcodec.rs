//! Independent reference EBML codec written from RFC 8794 — shares no code with /repo.
//! Used wherever a property fixes *what* the answer is (offsets, values, layout) rather than
//! that two executions of the real code agree.

use crate::spec::{Item, Spec, Ty};

#[derive(Clone, Copy, Debug, PartialEq, Eq)]
pub enum Dec<T> {
    NeedMore,
    Invalid,
    Ok(T, usize),
}

/// vint length implied by the first byte (1..=8), None if first byte is zero.
pub fn vint_len(first: u8) -> Option<usize> {
    if first == 0 {
        None
    } else {
        Some(first.leading_zeros() as usize + 1)
    }
}

/// Decode a vint (marker removed).
pub fn dec_vint(b: &[u8]) -> Dec<u64> {
    if b.is_empty() {
        return Dec::NeedMore;
    }
    let len = match vint_len(b[0]) {
        None => return Dec::Invalid,
        Some(l) => l,
    };
    if b.len() < len {
        return Dec::NeedMore;
    }
    let mut v: u64 = (b[0] as u64) & (0xFFu64 >> len);
    for x in &b[1..len] {
        v = (v << 8) | *x as u64;
    }
    Dec::Ok(v, len)
}

/// Decode an element id (marker retained).
pub fn dec_id(b: &[u8]) -> Dec<u64> {
    if b.is_empty() {
        return Dec::NeedMore;
    }
    let len = match vint_len(b[0]) {
        None => return Dec::Invalid,
        Some(l) => l,
    };
    if b.len() < len {
        return Dec::NeedMore;
    }
    let mut v: u64 = 0;
    for x in &b[..len] {
        v = (v << 8) | *x as u64;
    }
    Dec::Ok(v, len)
}

#[derive(Clone, Copy, Debug, PartialEq, Eq, Hash)]
pub enum RSize {
    Known(u64),
    Unknown,
}

/// Decode an element data size: all-ones value bits of any width = unknown.
pub fn dec_size(b: &[u8]) -> Dec<RSize> {
    match dec_vint(b) {
        Dec::NeedMore => Dec::NeedMore,
        Dec::Invalid => Dec::Invalid,
        Dec::Ok(v, len) => {
            if v == (1u64 << (7 * len)) - 1 {
                Dec::Ok(RSize::Unknown, len)
            } else {
                Dec::Ok(RSize::Known(v), len)
            }
        }
    }
}

/// Shortest vint width that can hold `v` as a plain value (v < 2^(7w)).
pub fn min_vint_width(v: u64) -> Option<usize> {
    (1..=8).find(|w| v < (1u64 << (7 * w)))
}

/// Shortest width usable for an element *size* (all-ones is reserved): v < 2^(7w) - 1.
pub fn min_size_width(v: u64) -> Option<usize> {
    (1..=8).find(|w| v < (1u64 << (7 * w)) - 1)
}

pub fn enc_vint(v: u64, w: usize) -> Vec<u8> {
    assert!((1..=8).contains(&w) && v < (1u64 << (7 * w)));
    let x = v | (1u64 << (7 * w));
    x.to_be_bytes()[8 - w..].to_vec()
}

pub fn enc_unknown_size(w: usize) -> Vec<u8> {
    enc_vint((1u64 << (7 * w)) - 1, w)
}

pub fn id_bytes(id: u64) -> Vec<u8> {
    let b = id.to_be_bytes();
    let skip = b.iter().take_while(|x| **x == 0).count();
    b[skip..].to_vec()
}

// ---------------------------------------------------------------- payload codecs

pub fn dec_uint(p: &[u8]) -> Option<u64> {
    if p.len() > 8 {
        return None;
    }
    let mut v = 0u64;
    for x in p {
        v = (v << 8) | *x as u64;
    }
    Some(v)
}

pub fn dec_sint(p: &[u8]) -> Option<i64> {
    if p.len() > 8 {
        return None;
    }
    if p.is_empty() {
        return Some(0);
    }
    let mut v: u64 = if p[0] & 0x80 != 0 { u64::MAX } else { 0 };
    for x in p {
        v = (v << 8) | *x as u64;
    }
    Some(v as i64)
}

/// returns bits of the f64 value
pub fn dec_float(p: &[u8]) -> Option<u64> {
    match p.len() {
        4 => Some((f32::from_bits(u32::from_be_bytes([p[0], p[1], p[2], p[3]])) as f64).to_bits()),
        8 => Some(u64::from_be_bytes([p[0], p[1], p[2], p[3], p[4], p[5], p[6], p[7]])),
        _ => None,
    }
}

/// Documented decoding of a payload for an element of type `ty` (None = undecodable).
pub fn dec_payload(id: u64, ty: Option<Ty>, p: &[u8]) -> Option<Item> {
    match ty {
        None => Some(Item::Raw(id, p.to_vec())),
        Some(Ty::U) => dec_uint(p).map(|v| Item::U(id, v)),
        Some(Ty::I) => dec_sint(p).map(|v| Item::I(id, v)),
        Some(Ty::F) => dec_float(p).map(|v| Item::F(id, v)),
        Some(Ty::S) => String::from_utf8(p.to_vec()).ok().map(|s| Item::S(id, s)),
        Some(Ty::B) => Some(Item::B(id, p.to_vec())),
        Some(Ty::Master) => None,
    }
}

/// Canonical payload bytes as the property texts describe the writer (minimal 1/2/4/8 ints, 8-byte floats).
pub fn enc_payload_canonical(it: &Item) -> Vec<u8> {
    match it {
        Item::U(_, v) => {
            if *v <= 0xFF {
                vec![*v as u8]
            } else if *v <= 0xFFFF {
                (*v as u16).to_be_bytes().to_vec()
            } else if *v <= 0xFFFF_FFFF {
                (*v as u32).to_be_bytes().to_vec()
            } else {
                v.to_be_bytes().to_vec()
            }
        }
        Item::I(_, v) => {
            if *v >= i8::MIN as i64 && *v <= i8::MAX as i64 {
                (*v as i8).to_be_bytes().to_vec()
            } else if *v >= i16::MIN as i64 && *v <= i16::MAX as i64 {
                (*v as i16).to_be_bytes().to_vec()
            } else if *v >= i32::MIN as i64 && *v <= i32::MAX as i64 {
                (*v as i32).to_be_bytes().to_vec()
            } else {
                v.to_be_bytes().to_vec()
            }
        }
        Item::F(_, bits) => bits.to_be_bytes().to_vec(),
        Item::S(_, s) => s.as_bytes().to_vec(),
        Item::B(_, b) | Item::Raw(_, b) => b.clone(),
        _ => panic!("not a leaf"),
    }
}

// ---------------------------------------------------------------- reference-encoded trees

/// How the size field of an element is to be encoded by the reference encoder.
#[derive(Clone, Copy, Debug, PartialEq, Eq, Hash)]
pub enum RSz {
    Min,
    Width(usize),
    Unknown(usize),
    /// declare `value` in a field of `width` bytes regardless of the real content length (fault injection)
    Lie(usize, u64),
}

/// Encoding-level tree: ids, size-field choice, raw payload bytes. A second, hostile producer
/// besides the repo's writer (can emit non-canonical encodings).
#[derive(Clone, Debug)]
pub struct RNode {
    pub id: u64,
    pub sz: RSz,
    pub body: RBody,
}

#[derive(Clone, Debug)]
pub enum RBody {
    Master(Vec<RNode>),
    Payload(Vec<u8>),
}

/// One element's position in a byte stream.
#[derive(Clone, Debug, PartialEq, Eq)]
pub struct Lay {
    pub id: u64,
    pub off: usize,
    pub id_len: usize,
    pub size_len: usize,
    pub size: Option<u64>, // None = unknown
    pub data_start: usize,
    pub end: usize, // first byte after the element (for unknown size: where its last child ends)
    pub depth: usize,
    pub is_master: bool,
    pub parent: Option<usize>, // index into the layout vector
}

impl Lay {
    pub fn hdr_len(&self) -> usize {
        self.id_len + self.size_len
    }
}

pub fn enc_tree(nodes: &[RNode]) -> (Vec<u8>, Vec<Lay>) {
    let mut out = Vec::new();
    let mut lay = Vec::new();
    for n in nodes {
        enc_node(n, 0, None, &mut out, &mut lay);
    }
    (out, lay)
}

fn content_len(n: &RNode) -> usize {
    match &n.body {
        RBody::Payload(p) => p.len(),
        RBody::Master(ch) => ch.iter().map(total_len).sum(),
    }
}

fn size_field(sz: RSz, clen: usize) -> Vec<u8> {
    match sz {
        RSz::Min => enc_vint(clen as u64, min_size_width(clen as u64).unwrap()),
        // an explicit width too small for the content is widened (the encoder only emits valid streams)
        RSz::Width(w) => enc_vint(clen as u64, w.max(min_size_width(clen as u64).unwrap())),
        RSz::Unknown(w) => enc_unknown_size(w),
        RSz::Lie(w, v) => enc_vint(v, w),
    }
}

fn total_len(n: &RNode) -> usize {
    let c = content_len(n);
    id_bytes(n.id).len() + size_field(n.sz, c).len() + c
}

fn enc_node(n: &RNode, depth: usize, parent: Option<usize>, out: &mut Vec<u8>, lay: &mut Vec<Lay>) {
    let idb = id_bytes(n.id);
    let clen = content_len(n);
    let szb = size_field(n.sz, clen);
    let off = out.len();
    out.extend_from_slice(&idb);
    out.extend_from_slice(&szb);
    let ds = out.len();
    let my = lay.len();
    lay.push(Lay {
        id: n.id,
        off,
        id_len: idb.len(),
        size_len: szb.len(),
        size: match n.sz {
            RSz::Unknown(_) => None,
            RSz::Lie(_, v) => Some(v),
            _ => Some(clen as u64),
        },
        data_start: ds,
        end: ds + clen,
        depth,
        is_master: matches!(n.body, RBody::Master(_)),
        parent,
    });
    match &n.body {
        RBody::Payload(p) => out.extend_from_slice(p),
        RBody::Master(ch) => {
            for c in ch {
                enc_node(c, depth + 1, Some(my), out, lay);
            }
        }
    }
    debug_assert_eq!(out.len(), ds + clen);
}

/// Whether a requested explicit width can hold `len` as a size.
pub fn width_fits(len: u64, w: usize) -> bool {
    len < (1u64 << (7 * w)) - 1
}

// ---------------------------------------------------------------- semantic trees

#[derive(Clone, Copy, Debug, PartialEq, Eq, Hash)]
pub enum SizeOpt {
    Default,
    Width(usize),
    Unknown,
}

/// Semantic document tree handed to the repo's writer (and, via `to_rnodes`, to the reference encoder).
#[derive(Clone, Debug)]
pub struct Node {
    pub item: Item, // leaf value, or Start(id) for masters
    pub children: Vec<Node>,
    pub opt: SizeOpt,
}

impl Node {
    pub fn leaf(item: Item) -> Node {
        Node { item, children: vec![], opt: SizeOpt::Default }
    }
    pub fn master(id: u64, children: Vec<Node>) -> Node {
        Node { item: Item::Start(id), children, opt: SizeOpt::Default }
    }
    pub fn is_master(&self) -> bool {
        matches!(self.item, Item::Start(_))
    }
    pub fn id(&self) -> u64 {
        self.item.id()
    }
    pub fn count(&self) -> usize {
        1 + self.children.iter().map(|c| c.count()).sum::<usize>()
    }
    pub fn depth(&self) -> usize {
        1 + self.children.iter().map(|c| c.depth()).max().unwrap_or(0)
    }
    pub fn flat_into(&self, out: &mut Vec<Item>) {
        if self.is_master() {
            out.push(Item::Start(self.id()));
            for c in &self.children {
                c.flat_into(out);
            }
            out.push(Item::End(self.id()));
        } else {
            out.push(self.item.clone());
        }
    }
    pub fn to_full(&self) -> Item {
        if self.is_master() {
            Item::Full(self.id(), self.children.iter().map(|c| c.to_full()).collect())
        } else {
            self.item.clone()
        }
    }
    pub fn visit<'a>(&'a self, f: &mut dyn FnMut(&'a Node, usize), depth: usize) {
        f(self, depth);
        for c in &self.children {
            c.visit(f, depth + 1);
        }
    }
    pub fn visit_mut(&mut self, f: &mut dyn FnMut(&mut Node, usize), depth: usize) {
        f(self, depth);
        for c in &mut self.children {
            c.visit_mut(f, depth + 1);
        }
    }
    pub fn short(&self) -> String {
        let o = match self.opt {
            SizeOpt::Default => String::new(),
            SizeOpt::Width(w) => format!("/w{}", w),
            SizeOpt::Unknown => "/unk".into(),
        };
        if self.is_master() {
            format!("M{:x}{}[{}]", self.id(), o, self.children.iter().map(|c| c.short()).collect::<Vec<_>>().join(" "))
        } else {
            format!("{}{}", self.item.short(), o)
        }
    }
}

pub fn flat(nodes: &[Node]) -> Vec<Item> {
    let mut v = Vec::new();
    for n in nodes {
        n.flat_into(&mut v);
    }
    v
}

pub fn tree_short(nodes: &[Node]) -> String {
    let s = nodes.iter().map(|n| n.short()).collect::<Vec<_>>().join(" ");
    if s.len() > 600 {
        let mut cut = 600;
        while !s.is_char_boundary(cut) {
            cut -= 1;
        }
        format!("{}...(+{} chars)", &s[..cut], s.len() - cut)
    } else {
        s
    }
}

pub fn count_nodes(nodes: &[Node]) -> usize {
    nodes.iter().map(|n| n.count()).sum()
}

/// Canonical reference encoding of a semantic tree honouring its size options.
pub fn to_rnodes(nodes: &[Node]) -> Vec<RNode> {
    nodes
        .iter()
        .map(|n| {
            let sz = match n.opt {
                SizeOpt::Default => RSz::Min,
                SizeOpt::Width(w) => RSz::Width(w),
                SizeOpt::Unknown => RSz::Unknown(8),
            };
            if n.is_master() {
                RNode { id: n.id(), sz, body: RBody::Master(to_rnodes(&n.children)) }
            } else {
                RNode { id: n.id(), sz, body: RBody::Payload(enc_payload_canonical(&n.item)) }
            }
        })
        .collect()
}

/// Walk `bytes` guided by the structure of `nodes` using only the reference header decoder.
/// Returns the layout in pre-order (same order as `flat` Starts/leaves), or a description of the first mismatch.
/// `allow_prefix`: if true, the bytes may end early at an element boundary *only when* `nodes` were all consumed
/// (used by callers that pass exactly the nodes expected to be present).
pub fn layout_guided(bytes: &[u8], nodes: &[Node]) -> Result<Vec<Lay>, String> {
    let mut lay = Vec::new();
    let mut pos = 0usize;
    for n in nodes {
        pos = lg_node(bytes, pos, n, 0, None, &mut lay)?;
    }
    if pos != bytes.len() {
        return Err(format!("{} trailing bytes after the last expected element (at {})", bytes.len() - pos, pos));
    }
    Ok(lay)
}

fn lg_node(bytes: &[u8], pos: usize, n: &Node, depth: usize, parent: Option<usize>, lay: &mut Vec<Lay>) -> Result<usize, String> {
    let (id, id_len) = match dec_id(&bytes[pos.min(bytes.len())..]) {
        Dec::Ok(v, l) => (v, l),
        other => return Err(format!("at {}: cannot decode id ({:?}) where element {:x} was expected", pos, other, n.id())),
    };
    if id != n.id() {
        return Err(format!("at {}: found id {:x}, expected {:x}", pos, id, n.id()));
    }
    let (size, size_len) = match dec_size(&bytes[pos + id_len..]) {
        Dec::Ok(v, l) => (v, l),
        other => return Err(format!("at {}: cannot decode size of {:x} ({:?})", pos, id, other)),
    };
    let ds = pos + id_len + size_len;
    let my = lay.len();
    lay.push(Lay {
        id,
        off: pos,
        id_len,
        size_len,
        size: match size {
            RSize::Known(v) => Some(v),
            RSize::Unknown => None,
        },
        data_start: ds,
        end: 0,
        depth,
        is_master: n.is_master(),
        parent,
    });
    let end;
    if n.is_master() {
        let mut p = ds;
        for c in &n.children {
            p = lg_node(bytes, p, c, depth + 1, Some(my), lay)?;
        }
        if let RSize::Known(v) = size {
            if ds as u64 + v != p as u64 {
                return Err(format!("master {:x} at {} declares size {} but its children occupy {}", id, pos, v, p - ds));
            }
        }
        end = p;
    } else {
        match size {
            RSize::Known(v) => {
                if (ds as u64 + v) > bytes.len() as u64 {
                    return Err(format!("element {:x} at {} declares size {} beyond the end of the bytes", id, pos, v));
                }
                end = ds + v as usize;
            }
            RSize::Unknown => return Err(format!("leaf {:x} at {} has unknown size", id, pos)),
        }
    }
    lay[my].end = end;
    Ok(end)
}

/// Decode the expected leaf value found at layout entry `l` (reference decoding).
pub fn lay_value(spec: &Spec, bytes: &[u8], l: &Lay) -> Option<Item> {
    if l.is_master {
        return Some(Item::Start(l.id));
    }
    dec_payload(l.id, spec.ty(l.id), &bytes[l.data_start..l.end])
}
