//! vmon — runtime monitors for ebml-iterable properties C01..C20.
//!
//!   vmon run <ID> [quick|thorough]      supervisor: runs the worker in a child process, classifies its exit
//!   vmon worker <ID> <tier> [...]       runs the monitor in-process
//!   vmon replay <file>                  re-runs one recorded case verbosely
//!   vmon list

mod alloc;
mod gen;
mod io;
mod json;
mod mutate;
mod obs;
mod prng;
mod props;
mod rd;
mod refcodec;
mod runner;
mod spec;
mod wr;

use runner::{PropDef, Tier};
use std::io::{BufRead, BufReader};
use std::process::{Command, Stdio};
use std::time::{Duration, Instant};

#[global_allocator]
static GLOBAL: alloc::CountingAlloc = alloc::CountingAlloc;

fn find_prop(id: &str) -> Option<&'static PropDef> {
    props::all().into_iter().find(|p| p.id == id)
}

fn seed_from_env() -> u64 {
    std::env::var("VERIF_SEED").ok().and_then(|s| s.trim().parse::<u64>().ok()).unwrap_or(1)
}

fn tier_from(arg: Option<&String>) -> Tier {
    let t = std::env::var("VERIF_TIER").ok().or(arg.cloned()).unwrap_or_else(|| "quick".into());
    if t.starts_with("thor") {
        Tier::Thorough
    } else {
        Tier::Quick
    }
}

fn threads() -> usize {
    std::env::var("VERIF_THREADS").ok().and_then(|s| s.parse().ok()).unwrap_or_else(|| std::thread::available_parallelism().map(|n| n.get()).unwrap_or(4))
}

fn main() {
    let args: Vec<String> = std::env::args().collect();
    let cmd = args.get(1).map(|s| s.as_str()).unwrap_or("");
    match cmd {
        "miri-smoke" => {
            // small single-threaded workload for `cargo +nightly miri run`: tools functions, writer, iterator, async next() loop
            let n: u64 = args.get(2).and_then(|s| s.parse().ok()).unwrap_or(40);
            let seed: u64 = args.get(3).and_then(|s| s.parse().ok()).unwrap_or(1);
            std::process::exit(props::c05::miri_smoke(n, seed));
        }
        "c17-massif-case" => {
            props::c17::massif_case_body(args.get(2).map(|s| s.as_str()).unwrap_or("baseline"));
        }
        "probe-deep" => {
            // vmon probe-deep <which 2|3> <depth> <stack_kb>: parse a deep nesting on a thread with the given stack size
            let which: u64 = args[2].parse().unwrap();
            let depth: usize = args[3].parse().unwrap();
            let stack_kb: usize = args[4].parse().unwrap();
            obs::install_hook();
            let h = std::thread::Builder::new().stack_size(stack_kb << 10).spawn(move || props::c05::deep_probe_body(which, depth)).unwrap();
            match h.join() {
                Ok(n) => {
                    println!("probe-deep ok items={}", n);
                    std::process::exit(0)
                }
                Err(_) => std::process::exit(3),
            }
        }
        "list" => {
            for p in props::all() {
                println!("{} {} quick={} thorough={}", p.id, p.level, p.cases_quick, p.cases_thorough);
            }
        }
        "worker" => {
            let id = args.get(2).expect("property id");
            let def = find_prop(id).unwrap_or_else(|| {
                eprintln!("unknown property {}", id);
                std::process::exit(2)
            });
            let tier = tier_from(args.get(3));
            obs::install_hook();
            if let Some(c) = std::env::var("VERIF_ALLOC_CEILING").ok().and_then(|s| s.parse::<u64>().ok()) {
                alloc::CEILING.store(c, std::sync::atomic::Ordering::Relaxed);
            }
            let mut thr = threads();
            let mut trace = false;
            let mut only: Option<u64> = None;
            let mut i = 4;
            while i < args.len() {
                match args[i].as_str() {
                    "--threads" => {
                        thr = args[i + 1].parse().unwrap();
                        i += 1;
                    }
                    "--trace" => trace = true,
                    "--only" => {
                        only = Some(args[i + 1].parse().unwrap());
                        i += 1;
                    }
                    _ => {}
                }
                i += 1;
            }
            let seed = seed_from_env();
            if let Some(n) = only {
                let r = runner::run_one_threaded(def, tier, seed, n, true);
                match r {
                    Ok(c) => {
                        println!("case {} evaluations={} violations={}", n, c.evals, c.viols.len());
                        for (k, v) in &c.counters {
                            println!("    {} = {}", k, v);
                        }
                        for v in &c.viols {
                            println!("  {}: {}", v.sig, v.msg);
                        }
                        std::process::exit(if c.viols.is_empty() { 0 } else { 1 });
                    }
                    Err(e) => {
                        println!("INCONCLUSIVE {}", e);
                        std::process::exit(2);
                    }
                }
            }
            if trace {
                // single-threaded, announce each case before running it (used to localise a crash)
                let total = tier.pick(def.cases_quick, def.cases_thorough);
                alloc::set_prop_tag(def.id);
                for idx in 0..total {
                    eprintln!("CASE {}", idx);
                    let _ = runner::run_one_threaded(def, tier, seed, idx, false);
                }
                std::process::exit(0);
            }
            let out = runner::run_prop(def, tier, seed, thr, None);
            std::process::exit(out.exit);
        }
        "run" => {
            let id = args.get(2).expect("property id").clone();
            if find_prop(&id).is_none() {
                println!("INCONCLUSIVE unknown property {}", id);
                std::process::exit(2);
            }
            let tier = tier_from(args.get(3));
            std::process::exit(supervise(&id, tier));
        }
        "replay" => {
            let path = args.get(2).expect("replay file");
            let txt = std::fs::read_to_string(path).expect("read replay file");
            let j = json::parse(&txt).expect("parse replay file");
            let id = j.get("property").and_then(|x| x.as_str()).expect("property");
            let seed = j.get("seed").and_then(|x| x.as_u64()).expect("seed");
            let idx = j.get("case").and_then(|x| x.as_u64()).expect("case");
            let tier = if j.get("tier").and_then(|x| x.as_str()) == Some("thorough") { Tier::Thorough } else { Tier::Quick };
            let def = find_prop(id).expect("known property");
            obs::install_hook();
            alloc::set_prop_tag(def.id);
            match runner::run_one_threaded(def, tier, seed, idx, true) {
                Ok(c) => {
                    println!("replayed {} case {} (seed {}, tier {}): evaluations={} violations={}", id, idx, seed, tier.name(), c.evals, c.viols.len());
                    for v in &c.viols {
                        println!("  {}: {}", v.sig, v.msg);
                    }
                    std::process::exit(if c.viols.is_empty() { 0 } else { 1 });
                }
                Err(e) => {
                    println!("INCONCLUSIVE {}", e);
                    std::process::exit(2);
                }
            }
        }
        _ => {
            eprintln!("usage: vmon run|worker|replay|list ...");
            std::process::exit(2);
        }
    }
}

struct ChildEnd {
    code: Option<i32>,
    ceiling: Option<(u64, u64)>, // (case, size)
    last_case: Option<u64>,
    timed_out: bool,
}

fn spawn_and_wait(args: &[String], wall: Duration) -> ChildEnd {
    let exe = std::env::current_exe().expect("current exe");
    let mut child = Command::new(exe).args(args).stdout(Stdio::inherit()).stderr(Stdio::piped()).spawn().expect("spawn worker");
    let stderr = child.stderr.take().unwrap();
    let h = std::thread::spawn(move || {
        let mut ceiling = None;
        let mut last_case = None;
        let rd = BufReader::new(stderr);
        for line in rd.lines().map_while(Result::ok) {
            if let Some(rest) = line.strip_prefix("ALLOC-CEILING ") {
                let mut case = 0;
                let mut size = 0;
                for kv in rest.split_whitespace() {
                    if let Some(v) = kv.strip_prefix("case=") {
                        case = v.parse().unwrap_or(u64::MAX);
                    }
                    if let Some(v) = kv.strip_prefix("size=") {
                        size = v.parse().unwrap_or(0);
                    }
                }
                ceiling = Some((case, size));
                eprintln!("{}", line);
            } else if let Some(rest) = line.strip_prefix("CASE ") {
                last_case = rest.trim().parse().ok();
            } else {
                eprintln!("{}", line);
            }
        }
        (ceiling, last_case)
    });
    let t0 = Instant::now();
    let mut timed_out = false;
    let code = loop {
        match child.try_wait() {
            Ok(Some(st)) => break st.code(),
            Ok(None) => {
                if t0.elapsed() > wall {
                    let _ = child.kill();
                    let _ = child.wait();
                    timed_out = true;
                    break None;
                }
                std::thread::sleep(Duration::from_millis(50));
            }
            Err(_) => break None,
        }
    };
    let (ceiling, last_case) = h.join().unwrap_or((None, None));
    ChildEnd { code, ceiling, last_case, timed_out }
}

fn write_crash_replay(id: &str, tier: Tier, seed: u64, case: u64, sig: &str, msg: &str) -> String {
    let vdir = std::env::var("VERIF_DIR").unwrap_or_else(|_| "/verif".into());
    let dir = format!("{}/replays/{}", vdir, id);
    let _ = std::fs::create_dir_all(&dir);
    let f = format!("{}/{}-seed{}-case{}.json", dir, sig.replace('/', "_"), seed, case);
    let j = json::J::obj()
        .set("property", json::J::s(id))
        .set("tier", json::J::s(tier.name()))
        .set("seed", json::J::u(seed))
        .set("case", json::J::u(case))
        .set("signature", json::J::s(sig))
        .set("message", json::J::s(msg));
    let _ = std::fs::write(&f, j.to_pretty());
    f
}

/// Run the worker in a child so that aborts (allocation failure, stack overflow, runaway allocation caught by
/// the ceiling) become verdicts instead of killing the check.
fn supervise(id: &str, tier: Tier) -> i32 {
    let seed = seed_from_env();
    let wall = Duration::from_secs(std::env::var("VERIF_WATCHDOG_S").ok().and_then(|s| s.parse().ok()).unwrap_or(tier.pick(900, 5400)));
    let base = vec!["worker".to_string(), id.to_string(), tier.name().to_string()];
    let end = spawn_and_wait(&base, wall);
    if end.timed_out {
        println!("INCONCLUSIVE property={} wall-clock watchdog fired after {:?}", id, wall);
        return 2;
    }
    match end.code {
        Some(c @ (0 | 1 | 2)) => c,
        Some(101) if end.ceiling.is_some() => {
            let (case, size) = end.ceiling.unwrap();
            // confirm in isolation
            let mut a = base.clone();
            a.extend(["--only".to_string(), case.to_string()]);
            let again = spawn_and_wait(&a, Duration::from_secs(300));
            if again.code == Some(101) && again.ceiling.is_some() {
                let f = write_crash_replay(id, tier, seed, case, &format!("{}/alloc-ceiling", id), &format!("a single allocation request of {} bytes was made (ceiling 1 GiB); would abort the process", size));
                println!("  case {}: runaway allocation request of {} bytes", case, size);
                println!("VIOLATION property={} replay={}", id, f);
                1
            } else {
                println!("INCONCLUSIVE property={} allocation ceiling hit in case {} but it did not reproduce in isolation", id, case);
                2
            }
        }
        other => {
            // abnormal death: localise with a traced single-threaded run
            eprintln!("worker died abnormally ({:?}); localising with a traced run", other);
            let mut a = base.clone();
            a.extend(["--threads".to_string(), "1".to_string(), "--trace".to_string()]);
            let traced = spawn_and_wait(&a, wall);
            if traced.code == Some(0) || traced.last_case.is_none() {
                println!("INCONCLUSIVE property={} worker died abnormally ({:?}) and the traced run did not reproduce it", id, other);
                return 2;
            }
            let case = traced.last_case.unwrap();
            let mut b = base.clone();
            b.extend(["--only".to_string(), case.to_string()]);
            let again = spawn_and_wait(&b, Duration::from_secs(300));
            if matches!(again.code, Some(0) | Some(1) | Some(2)) {
                println!("INCONCLUSIVE property={} crash in case {} did not reproduce in isolation", id, case);
                return 2;
            }
            let f = write_crash_replay(id, tier, seed, case, &format!("{}/process-crash", id), &format!("the process died abnormally (exit {:?}) while running this case", again.code));
            println!("  case {}: process crash (exit status {:?})", case, again.code);
            println!("VIOLATION property={} replay={}", id, f);
            1
        }
    }
}
