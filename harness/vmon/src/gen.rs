//! Workload generators: specification zoo, random specifications, random conformant trees,
//! boundary-lattice payloads, per-element write options.

use crate::prng::Rng;
use crate::refcodec::{Node, SizeOpt};
use crate::spec::{Elem, Item, Spec, Ty, CRC_ID, PP, VOID_ID};

fn el(name: &str, id: u64, ty: Ty, path: Vec<PP>) -> Elem {
    Elem { id, ty, path, name: name.to_string() }
}

fn globals() -> Vec<Elem> {
    vec![el("Crc32", CRC_ID, Ty::B, vec![PP::Glob(Some(1), None)]), el("Void", VOID_ID, Ty::B, vec![PP::Glob(None, None)])]
}

/// Replica of /repo/tests/test_spec.rs
pub fn z_test() -> Spec {
    use PP::Id;
    let mut e = vec![
        el("Root", 0x81, Ty::Master, vec![]),
        el("Int", 0x4101, Ty::U, vec![Id(0x81)]),
        el("String", 0x4102, Ty::S, vec![Id(0x81)]),
        el("Parent", 0x4103, Ty::Master, vec![Id(0x81)]),
        el("Child", 0x210301, Ty::U, vec![Id(0x81), Id(0x4103)]),
        el("Ebml", 0x1a45dfa3, Ty::Master, vec![]),
        el("Segment", 0x18538067, Ty::Master, vec![]),
        el("TrackType", 0x83, Ty::U, vec![Id(0x18538067)]),
        el("Cluster", 0x1F43B675, Ty::Master, vec![Id(0x18538067)]),
        el("CueRefCluster", 0x97, Ty::U, vec![Id(0x18538067), Id(0x1F43B675)]),
        el("Count", 0x4100, Ty::U, vec![Id(0x18538067), Id(0x1F43B675)]),
        el("Block", 0xa1, Ty::B, vec![Id(0x18538067), Id(0x1F43B675)]),
        el("SimpleBlock", 0xa3, Ty::B, vec![Id(0x18538067), Id(0x1F43B675)]),
    ];
    e.extend(globals());
    Spec { name: "Z_TEST".into(), elems: e }
}

/// All six types at depths 0-4, ids of 1,2,3,4,5,7,8 bytes, several roots, a bounded trailing global,
/// and (optionally) a master with a global path and a child below it (intermediate placeholder).
pub fn z_kitchen(intermediate: bool) -> Spec {
    use PP::Id;
    const DOC: u64 = 0x1A45DFA3;
    const SEG: u64 = 0x18538067;
    const INFO: u64 = 0x1549A966;
    const TRACKS: u64 = 0x1654AE6B;
    const ENTRY: u64 = 0xAE;
    const VIDEO: u64 = 0xE0;
    const CLUSTER: u64 = 0x1F43B675;
    const GROUP: u64 = 0xA0;
    const META: u64 = 0x1254C367;
    let mut e = vec![
        el("Doc", DOC, Ty::Master, vec![]),
        el("Ver", 0x4286, Ty::U, vec![Id(DOC)]),
        el("DocType", 0x4282, Ty::S, vec![Id(DOC)]),
        el("Seg", SEG, Ty::Master, vec![]),
        el("Info", INFO, Ty::Master, vec![Id(SEG)]),
        el("Title", 0x7BA9, Ty::S, vec![Id(SEG), Id(INFO)]),
        el("Scale", 0x2AD7B1, Ty::U, vec![Id(SEG), Id(INFO)]),
        el("Dur", 0x4489, Ty::F, vec![Id(SEG), Id(INFO)]),
        el("Off", 0x537F, Ty::I, vec![Id(SEG), Id(INFO)]),
        el("Tracks", TRACKS, Ty::Master, vec![Id(SEG)]),
        el("Entry", ENTRY, Ty::Master, vec![Id(SEG), Id(TRACKS)]),
        el("Num", 0xD7, Ty::U, vec![Id(SEG), Id(TRACKS), Id(ENTRY)]),
        el("Name", 0x536E, Ty::S, vec![Id(SEG), Id(TRACKS), Id(ENTRY)]),
        el("Priv", 0x63A2, Ty::B, vec![Id(SEG), Id(TRACKS), Id(ENTRY)]),
        el("Video", VIDEO, Ty::Master, vec![Id(SEG), Id(TRACKS), Id(ENTRY)]),
        el("W", 0xB0, Ty::U, vec![Id(SEG), Id(TRACKS), Id(ENTRY), Id(VIDEO)]),
        el("Gamma", 0x2FB523, Ty::F, vec![Id(SEG), Id(TRACKS), Id(ENTRY), Id(VIDEO)]),
        el("Cluster", CLUSTER, Ty::Master, vec![Id(SEG)]),
        el("Time", 0xE7, Ty::U, vec![Id(SEG), Id(CLUSTER)]),
        el("Block", 0xA3, Ty::B, vec![Id(SEG), Id(CLUSTER)]),
        el("Group", GROUP, Ty::Master, vec![Id(SEG), Id(CLUSTER)]),
        el("Ref", 0xFB, Ty::I, vec![Id(SEG), Id(CLUSTER), Id(GROUP)]),
        el("Data", 0xA1, Ty::B, vec![Id(SEG), Id(CLUSTER), Id(GROUP)]),
        el("Long5", 0x0812345678, Ty::U, vec![Id(SEG)]),
        el("Long7", 0x02112233445566, Ty::B, vec![Id(SEG)]),
        el("Long8", 0x0111223344556677, Ty::S, vec![Id(SEG)]),
        el("Tag", 0x45A3, Ty::B, vec![Id(SEG), PP::Glob(Some(1), Some(2))]),
        el("RootLeaf", 0x4DBB, Ty::U, vec![]),
    ];
    if intermediate {
        e.push(el("Meta", META, Ty::Master, vec![Id(SEG), PP::Glob(Some(0), Some(1))]));
        e.push(el("Key", 0x45B0, Ty::S, vec![Id(SEG), PP::Glob(Some(0), Some(1)), Id(META)]));
    }
    e.extend(globals());
    Spec { name: if intermediate { "Z_KITCHEN+I".into() } else { "Z_KITCHEN".into() }, elems: e }
}

/// Chain of `n` nested masters (2-byte ids), a leaf and a sibling master at each level, a second root.
pub fn z_deep(n: usize) -> Spec {
    let mut e = Vec::new();
    let mut path: Vec<PP> = Vec::new();
    for k in 0..n {
        let mid = 0x4100 + k as u64;
        e.push(el(&format!("M{}", k), mid, Ty::Master, path.clone()));
        e.push(el(&format!("S{}", k), 0x4200 + k as u64, Ty::Master, path.clone()));
        e.push(el(&format!("SL{}", k), 0x4400 + k as u64, Ty::U, {
            let mut p = path.clone();
            p.push(PP::Id(0x4200 + k as u64));
            p
        }));
        if k > 0 {
            e.push(el(&format!("L{}", k - 1), 0x4300 + (k as u64 - 1), Ty::U, path.clone()));
        }
        path.push(PP::Id(mid));
    }
    e.push(el(&format!("L{}", n - 1), 0x4300 + (n as u64 - 1), Ty::U, path.clone()));
    e.push(el("RootLeaf", 0x4DBB, Ty::U, vec![]));
    e.extend(globals());
    Spec { name: format!("Z_DEEP{}", n), elems: e }
}

#[derive(Clone, Copy, Debug)]
pub struct SpecBounds {
    pub max_masters: usize,
    pub max_depth: usize,
    pub max_leaves: usize,
    /// leaves with a trailing global placeholder in their path
    pub global_leaves: bool,
    /// masters whose own path ends in a placeholder (=> intermediate placeholders in their children's paths)
    pub global_masters: bool,
}

impl SpecBounds {
    pub const PLAIN: SpecBounds = SpecBounds { max_masters: 10, max_depth: 5, max_leaves: 14, global_leaves: true, global_masters: false };
    pub const FULL: SpecBounds = SpecBounds { max_masters: 12, max_depth: 6, max_leaves: 14, global_leaves: true, global_masters: true };
}

/// Random well-formed element id of byte length `len`, not all-zero/all-one value bits.
pub fn random_id(rng: &mut Rng, len: usize) -> u64 {
    loop {
        let vbits = 7 * len;
        let v = if vbits >= 64 { rng.next_u64() } else { rng.next_u64() & ((1u64 << vbits) - 1) };
        if v == 0 || v == (1u64 << vbits) - 1 {
            continue;
        }
        return v | (1u64 << vbits);
    }
}

fn random_glob(rng: &mut Rng) -> PP {
    let min = *rng.pick(&[None, None, Some(0u64), Some(1), Some(2)]);
    let lo = min.unwrap_or(0).max(1);
    let max = match rng.below(4) {
        0 => None,
        _ => Some(lo + rng.below(3)),
    };
    PP::Glob(min, max)
}

/// Random specification obeying every constraint the derive macro enforces.
pub fn random_spec(rng: &mut Rng, b: &SpecBounds) -> Spec {
    let mut elems: Vec<Elem> = Vec::new();
    let mut used = std::collections::HashSet::new();
    used.insert(VOID_ID);
    used.insert(CRC_ID);
    let mut new_id = |rng: &mut Rng| loop {
        let len = *rng.pick(&[1usize, 1, 1, 2, 2, 2, 3, 4, 4, 5, 6, 7, 8]);
        let id = random_id(rng, len);
        if used.insert(id) {
            return id;
        }
    };
    let n_masters = rng.urange(1, b.max_masters);
    // (index in elems, depth)
    let mut masters: Vec<(usize, usize)> = Vec::new();
    for k in 0..n_masters {
        let id = new_id(rng);
        let parent = if k == 0 || rng.chance(1, 4) {
            None
        } else {
            let cands: Vec<&(usize, usize)> = masters.iter().filter(|m| m.1 + 1 < b.max_depth).collect();
            if cands.is_empty() {
                None
            } else {
                Some(**rng.pick(&cands))
            }
        };
        let (mut path, depth) = match parent {
            None => (vec![], 0),
            Some((pi, d)) => {
                let mut p = elems[pi].path.clone();
                p.push(PP::Id(elems[pi].id));
                (p, d + 1)
            }
        };
        // masters with a placeholder at the end of their path; now and then the placeholder is the whole path (a master
        // that may appear anywhere, the top level included when its minimum is 0)
        if b.global_masters && ((parent.is_some() && rng.chance(1, 5)) || (parent.is_none() && k > 0 && rng.chance(1, 6))) {
            path.push(random_glob(rng));
        }
        masters.push((elems.len(), depth));
        elems.push(el(&format!("M{}", k), id, Ty::Master, path));
    }
    let n_leaves = rng.urange(2, b.max_leaves);
    for k in 0..n_leaves {
        let id = new_id(rng);
        let ty = *rng.pick(&Ty::LEAVES);
        let path = if rng.chance(1, 12) {
            vec![]
        } else {
            let (pi, _) = *rng.pick(&masters);
            let mut p = elems[pi].path.clone();
            p.push(PP::Id(elems[pi].id));
            if b.global_leaves && rng.chance(1, 6) {
                p.push(random_glob(rng));
            }
            p
        };
        elems.push(el(&format!("L{}", k), id, ty, path));
    }
    elems.extend(globals());
    Spec { name: "RANDOM".into(), elems }
}

/// Pick a spec: zoo member or random, according to the case index parity and bounds.
/// Self-nesting master through an unbounded placeholder (like Matroska's SimpleTag / ChapterAtom).
pub fn z_recursive() -> Spec {
    use PP::Id;
    let mut e = vec![
        el("Root", 0x1A45DFA3, Ty::Master, vec![]),
        el("Rec", 0xA0, Ty::Master, vec![Id(0x1A45DFA3), PP::Glob(Some(0), None)]),
        el("Val", 0xD7, Ty::U, vec![Id(0x1A45DFA3), PP::Glob(Some(0), None)]),
        el("Sib", 0xAE, Ty::Master, vec![Id(0x1A45DFA3)]),
        el("SibVal", 0xB0, Ty::U, vec![Id(0x1A45DFA3), Id(0xAE)]),
        el("Name", 0x536E, Ty::S, vec![Id(0x1A45DFA3), PP::Glob(Some(1), Some(3))]),
    ];
    e.extend(globals());
    Spec { name: "Z_RECURSIVE".into(), elems: e }
}

/// Scale documents: far more siblings under one master, or far deeper same-id nesting, than the random tree
/// generator ever produces (its documents have up to ~150 elements and depth <= 6). Sizes straddle 255/256/257 and
/// 511/512/513 (counter widths, queue growth steps) and go up to a few thousand.
pub fn gen_scale_tree(rng: &mut Rng, allow_recursive: bool) -> (Spec, Vec<Node>, &'static str) {
    if allow_recursive && rng.chance(1, 2) {
        let d = *rng.pick(&[100usize, 254, 255, 256, 257, 258, 400, 700]);
        let with_leaves = rng.chance(1, 2);
        let mut node = Node::master(0xA0, vec![Node::leaf(Item::U(0xD7, 7))]);
        for i in 1..d {
            let mut ch = vec![node];
            if with_leaves && i % 3 == 0 {
                ch.push(Node::leaf(Item::U(0xD7, i as u64)));
            }
            node = Node::master(0xA0, ch);
        }
        let tree = vec![Node::master(0x1A45DFA3, vec![node, Node::master(0xAE, vec![Node::leaf(Item::U(0xB0, 3))])])];
        return (z_recursive(), tree, "deep");
    }
    let n = *rng.pick(&[254usize, 255, 256, 257, 258, 300, 511, 512, 513, 1000, 2500]);
    let mut ch = Vec::with_capacity(n);
    for i in 0..n {
        if rng.chance(1, 10) {
            let len = rng.urange(0, 6);
            ch.push(Node::leaf(Item::B(0xa1, rng.bytes(len))));
        } else {
            ch.push(Node::leaf(Item::U(0x4100, i as u64)));
        }
    }
    let mut seg = vec![Node::master(0x1F43B675, ch)];
    if rng.chance(2, 3) {
        seg.push(Node::leaf(Item::U(0x83, 1)));
    }
    if rng.chance(1, 2) {
        seg.push(Node::master(0x1F43B675, vec![Node::leaf(Item::U(0x4100, 2))]));
    }
    (z_test(), vec![Node::master(0x18538067, seg)], "wide")
}

pub fn pick_spec(rng: &mut Rng, b: &SpecBounds) -> Spec {
    if b.global_masters && rng.chance(1, 12) {
        return z_recursive();
    }
    match rng.below(10) {
        0 => z_test(),
        1 | 2 => z_kitchen(b.global_masters),
        3 => z_deep(rng.urange(3, 7)),
        _ => random_spec(rng, b),
    }
}

// ---------------------------------------------------------------- values

pub const LEN_LATTICE: [usize; 9] = [0, 1, 2, 126, 127, 128, 16382, 16383, 16384];

pub fn lattice_len(rng: &mut Rng, big: bool) -> usize {
    // very rarely: the 3-byte size-field boundary (2^21-1 is the reserved all-ones pattern of that width)
    if big && rng.chance(1, 1500) {
        return *rng.pick(&[2_097_150usize, 2_097_151, 2_097_152]);
    }
    // rarely: lengths around 2^16 — not a vint boundary, but the size of the reader's default buffer and of the async
    // adapter's transfer buffer, i.e. the natural threshold of any "large payload" path in reader or writer
    if big && rng.chance(1, 4000) {
        return *rng.pick(&[65_534usize, 65_535, 65_536, 65_537, 65_536 + 4_096, 131_072]);
    }
    match rng.below(100) {
        0..=59 => rng.urange(0, 12),
        60..=79 => *rng.pick(&[0usize, 1, 2, 125, 126, 127, 128, 129]),
        80..=89 => rng.urange(13, 300),
        90..=95 if big => *rng.pick(&[16382usize, 16383, 16384, 16385]),
        96..=97 if big => rng.urange(300, 20000),
        _ => rng.urange(0, 40),
    }
}

pub fn gen_u64(rng: &mut Rng) -> u64 {
    match rng.below(10) {
        0..=2 => rng.below(300),
        3..=6 => {
            let k = *rng.pick(&[7u32, 8, 15, 16, 24, 31, 32, 40, 48, 56, 63]);
            let base = 1u64 << k;
            base.wrapping_add(rng.below(5)).wrapping_sub(2)
        }
        7 => *rng.pick(&[0, 1, 0xFF, 0x100, 0xFFFF, 0x10000, 0xFFFF_FFFF, 0x1_0000_0000, u64::MAX, u64::MAX - 1, 1 << 63]),
        _ => rng.next_u64() >> rng.below(64),
    }
}

pub fn gen_i64(rng: &mut Rng) -> i64 {
    match rng.below(10) {
        0..=2 => rng.below(300) as i64 - 150,
        3..=6 => {
            let k = *rng.pick(&[6u32, 7, 8, 14, 15, 16, 23, 31, 32, 47, 55, 62]);
            let base = 1i64 << k;
            let v = base.wrapping_add(rng.below(5) as i64).wrapping_sub(2);
            if rng.chance(1, 2) {
                v
            } else {
                v.wrapping_neg()
            }
        }
        7 => *rng.pick(&[0, -1, 1, i64::MIN, i64::MAX, i64::MIN + 1, -128, 127, -129, 128, -32768, 32767, -32769, 32768]),
        _ => (rng.next_u64() as i64) >> rng.below(64),
    }
}

pub fn gen_f64_bits(rng: &mut Rng) -> u64 {
    match rng.below(10) {
        0..=2 => ((rng.below(2000) as f64 - 1000.0) / 8.0).to_bits(),
        3 => *rng.pick(&[0.0f64.to_bits(), (-0.0f64).to_bits(), f64::INFINITY.to_bits(), f64::NEG_INFINITY.to_bits(), f64::MIN_POSITIVE.to_bits(), 1u64, 0x000F_FFFF_FFFF_FFFF, f64::MAX.to_bits(), f64::EPSILON.to_bits()]),
        4 => 0x7FF0_0000_0000_0000 | (rng.next_u64() & 0x000F_FFFF_FFFF_FFFF) | 1, // NaN with payload
        5 => 0xFFF8_0000_0000_0000 | (rng.next_u64() & 0x0007_FFFF_FFFF_FFFF),
        6 => (f32::from_bits(rng.next_u64() as u32) as f64).to_bits(), // exactly representable in f32
        _ => rng.next_u64(),
    }
}

pub fn gen_string(rng: &mut Rng, len: usize) -> String {
    const ALPHA: [&str; 12] = ["a", "b", "Z", "0", " ", "é", "ß", "€", "漢", "😀", "\u{0}", "~"];
    let mut s = String::new();
    if len > 300 {
        // long strings: mostly ascii, exact byte length
        while s.len() < len {
            s.push((b'a' + (rng.below(26) as u8)) as char);
        }
        return s;
    }
    while s.len() < len {
        let c = *rng.pick(&ALPHA);
        if s.len() + c.len() <= len {
            s.push_str(c);
        } else {
            s.push('x');
        }
    }
    s
}

pub fn gen_value(rng: &mut Rng, id: u64, ty: Ty, big: bool) -> Item {
    match ty {
        Ty::U => Item::U(id, gen_u64(rng)),
        Ty::I => Item::I(id, gen_i64(rng)),
        Ty::F => Item::F(id, gen_f64_bits(rng)),
        Ty::S => {
            let n = lattice_len(rng, big);
            Item::S(id, gen_string(rng, n))
        }
        Ty::B => {
            let n = lattice_len(rng, big);
            Item::B(id, rng.bytes(n))
        }
        Ty::Master => Item::Start(id),
    }
}

// ---------------------------------------------------------------- trees

#[derive(Clone, Copy, Debug)]
pub struct TreeBounds {
    pub max_elems: usize,
    pub max_depth: usize,
    pub big_payloads: bool,
    pub globals: bool,
}

impl TreeBounds {
    pub fn small() -> TreeBounds {
        TreeBounds { max_elems: 12, max_depth: 5, big_payloads: false, globals: true }
    }
    pub fn quick() -> TreeBounds {
        TreeBounds { max_elems: 40, max_depth: 6, big_payloads: true, globals: true }
    }
    pub fn thorough() -> TreeBounds {
        TreeBounds { max_elems: 160, max_depth: 7, big_payloads: true, globals: true }
    }
}

/// Random specification-conformant forest (per the reference path semantics), starting at root elements.
pub fn gen_tree(rng: &mut Rng, spec: &Spec, b: &TreeBounds) -> Vec<Node> {
    let mut budget = rng.urange(1, b.max_elems.max(1)) as isize;
    let roots: Vec<&Elem> = spec.elems.iter().filter(|e| e.is_root()).collect();
    let mut out = Vec::new();
    if roots.is_empty() {
        return out;
    }
    let root_masters: Vec<&&Elem> = roots.iter().filter(|e| e.ty == Ty::Master).collect();
    let n_roots = rng.urange(1, 3);
    for k in 0..n_roots {
        if budget <= 0 {
            break;
        }
        let e: &Elem = if k == 0 && !root_masters.is_empty() && rng.chance(9, 10) { **rng.pick(&root_masters) } else { *rng.pick(&roots) };
        out.push(gen_node(rng, spec, e, &mut vec![], &mut budget, b));
    }
    out
}

fn gen_node(rng: &mut Rng, spec: &Spec, e: &Elem, chain: &mut Vec<u64>, budget: &mut isize, b: &TreeBounds) -> Node {
    *budget -= 1;
    if e.ty != Ty::Master {
        return Node::leaf(gen_value(rng, e.id, e.ty, b.big_payloads));
    }
    chain.push(e.id);
    let mut children = Vec::new();
    if chain.len() < b.max_depth {
        let cands: Vec<&Elem> = spec.allowed_under(chain).into_iter().filter(|c| b.globals || !c.is_global()).collect();
        if !cands.is_empty() {
            let want = match rng.below(10) {
                0 => 0,
                1..=5 => rng.urange(1, 3),
                6..=8 => rng.urange(2, 6),
                _ => rng.urange(4, 12),
            };
            for _ in 0..want {
                if *budget <= 0 {
                    break;
                }
                let c = *rng.pick(&cands);
                // do not recurse into masters when at the depth limit - 1 with only masters available
                children.push(gen_node(rng, spec, c, chain, budget, b));
            }
        }
    }
    chain.pop();
    Node::master(e.id, children)
}

/// Assign random size options. `p_width`, `p_unknown` in percent.
pub fn assign_opts(rng: &mut Rng, spec: &Spec, nodes: &mut [Node], p_width: u64, p_unknown: u64) {
    for n in nodes.iter_mut() {
        n.visit_mut(
            &mut |x, _| {
                let r = rng.below(100);
                if r < p_width {
                    x.opt = SizeOpt::Width(rng.urange(1, 8));
                } else if x.is_master() && r < p_width + p_unknown {
                    x.opt = SizeOpt::Unknown;
                }
            },
            0,
        );
    }
    fix_widths(nodes);
    fix_unknown(spec, nodes);
}

/// Content length of a node under the canonical reference encoding (to decide whether a width fits).
pub fn content_len(n: &Node) -> u64 {
    if n.is_master() {
        n.children.iter().map(total_len).sum()
    } else {
        crate::refcodec::enc_payload_canonical(&n.item).len() as u64
    }
}

fn total_len(n: &Node) -> u64 {
    let c = content_len(n);
    let szw = match n.opt {
        SizeOpt::Default => crate::refcodec::min_size_width(c).unwrap() as u64,
        SizeOpt::Width(w) => w as u64,
        SizeOpt::Unknown => 8,
    };
    crate::refcodec::id_bytes(n.id()).len() as u64 + szw + c
}

/// Widen explicit widths that cannot hold the element's size (keeps trees acceptable to the writer).
pub fn fix_widths(nodes: &mut [Node]) {
    for n in nodes.iter_mut() {
        fix_widths(&mut n.children);
        if let SizeOpt::Width(w) = n.opt {
            let c = content_len(n);
            let mut w2 = w;
            while !crate::refcodec::width_fits(c, w2) {
                w2 += 1;
            }
            n.opt = SizeOpt::Width(w2);
        }
    }
}

/// Demote Unknown where reading would be inherently ambiguous or undefined:
/// masters whose following element (after closing through unknown-size ancestors) is a global element, and masters
/// with a placeholder in their own declared path unless what follows is nothing, a root element or a declared ancestor.
pub fn fix_unknown(spec: &Spec, nodes: &mut [Node]) {
    // iterate to a fixpoint because demoting an ancestor changes what "follows" means for descendants
    loop {
        let mut changed = false;
        fix_unknown_level(spec, nodes, None, &mut changed);
        if !changed {
            break;
        }
    }
}

/// Does some element that the reader meets while `w` (unknown size) is still open — its children, and the children of
/// unknown-size masters below it — look like a sibling of `w` (same declared path) or like one of its declared ancestors?
fn reaches_closer(spec: &Spec, w: &Elem, children: &[Node]) -> bool {
    children.iter().any(|ch| {
        let looks = spec.get(ch.id()).map(|ce| ce.path == w.path || w.path.iter().any(|p| matches!(p, PP::Id(i) if *i == ce.id))).unwrap_or(true);
        looks || (ch.is_master() && ch.opt == SizeOpt::Unknown && reaches_closer(spec, w, &ch.children))
    })
}

/// `follow`: id of the element that follows this list of siblings if the enclosing masters are unknown-size
/// (None = end of input or a known-size boundary, both of which close unambiguously).
fn fix_unknown_level(spec: &Spec, nodes: &mut [Node], follow: Option<u64>, changed: &mut bool) {
    let n = nodes.len();
    for i in 0..n {
        let next_here = if i + 1 < n { Some(nodes[i + 1].id()) } else { follow };
        let node = &mut nodes[i];
        if !node.is_master() {
            continue;
        }
        if node.opt == SizeOpt::Unknown {
            let me = spec.get(node.id());
            let glob_master = me.map(|e| e.is_global()).unwrap_or(true);
            // what follows ends this master for sure — under every reading of "sibling / ancestor / root" — if it is a root
            // element or a master that this master's declared path names as an ancestor
            let closes_for_sure = match (me, next_here) {
                (Some(e), Some(x)) => spec.get(x).map(|nx| nx.is_root()).unwrap_or(false) || e.path.iter().any(|p| matches!(p, PP::Id(i) if *i == x)),
                _ => false,
            };
            // an element with a placeholder in its own path right behind an unknown-size master could be its child or its
            // successor: ambiguous, unless it ends the master for sure
            let next_glob = !closes_for_sure && next_here.map(|x| spec.get(x).map(|e| e.is_global()).unwrap_or(true)).unwrap_or(false);
            // a master with a placeholder in its declared path may keep its unknown size only where nothing follows (end of
            // input, known-size boundary) or what follows ends it for sure
            let glob_ok = me.is_some() && (next_here.is_none() || closes_for_sure);
            let child_ends_it = glob_master && me.map(|e| reaches_closer(spec, e, &node.children)).unwrap_or(true);
            if (glob_master && (!glob_ok || child_ends_it)) || next_glob {
                node.opt = SizeOpt::Default;
                *changed = true;
            }
        }
        let child_follow = if node.opt == SizeOpt::Unknown { next_here } else { None };
        fix_unknown_level(spec, &mut node.children, child_follow, changed);
    }
}

/// Number of masters / unknown-size masters / explicit widths in a forest (for fingerprints).
pub fn tree_stats(nodes: &[Node]) -> (usize, usize, usize, usize) {
    let (mut m, mut u, mut w, mut d) = (0, 0, 0, 0);
    for n in nodes {
        n.visit(
            &mut |x, depth| {
                if x.is_master() {
                    m += 1;
                }
                match x.opt {
                    SizeOpt::Unknown => u += 1,
                    SizeOpt::Width(_) => w += 1,
                    _ => {}
                }
                d = d.max(depth + 1);
            },
            0,
        );
    }
    (m, u, w, d)
}

/// A structural fingerprint of a forest: shape, ids, options and payload-length classes.
pub fn tree_fingerprint(nodes: &[Node]) -> u64 {
    let mut h = 0x1234_5678u64;
    for n in nodes {
        n.visit(
            &mut |x, depth| {
                h = crate::prng::mix(h, x.id());
                h = crate::prng::mix(h, depth as u64);
                h = crate::prng::mix(
                    h,
                    match x.opt {
                        SizeOpt::Default => 0,
                        SizeOpt::Width(w) => w as u64,
                        SizeOpt::Unknown => 99,
                    },
                );
                if !x.is_master() {
                    let l = crate::refcodec::enc_payload_canonical(&x.item).len() as u64;
                    h = crate::prng::mix(h, l);
                }
            },
            0,
        );
    }
    h
}

// ---------------------------------------------------------------- document shaping helpers

/// Make the last element of the document empty (empty Binary/Utf8 leaf, or a master without children).
pub fn make_last_empty(nodes: &mut [Node]) -> bool {
    fn go(n: &mut Node) -> bool {
        if n.is_master() {
            if let Some(last) = n.children.last_mut() {
                return go(last);
            }
            true // already an empty master
        } else {
            match &mut n.item {
                Item::S(_, s) => {
                    s.clear();
                    true
                }
                Item::B(_, b) | Item::Raw(_, b) => {
                    b.clear();
                    true
                }
                _ => false,
            }
        }
    }
    match nodes.last_mut() {
        Some(n) => go(n),
        None => false,
    }
}

/// Pad one random master with a trailing Void element so that its content is exactly `target` bytes
/// (targets are the sizes whose minimal vint would be the reserved all-ones pattern, and neighbours).
pub fn pad_master_to(rng: &mut Rng, nodes: &mut [Node], target: u64) -> bool {
    // collect candidate masters (paths as index vectors)
    let mut paths: Vec<Vec<usize>> = Vec::new();
    fn collect(n: &Node, cur: &mut Vec<usize>, out: &mut Vec<Vec<usize>>) {
        if n.is_master() {
            out.push(cur.clone());
            for (i, c) in n.children.iter().enumerate() {
                cur.push(i);
                collect(c, cur, out);
                cur.pop();
            }
        }
    }
    for (i, n) in nodes.iter().enumerate() {
        let mut cur = vec![i];
        collect(n, &mut cur, &mut paths);
    }
    rng.shuffle(&mut paths);
    for p in paths {
        let mut n: &mut Node = &mut nodes[p[0]];
        for i in &p[1..] {
            n = &mut n.children[*i];
        }
        let c = content_len(n);
        if c + 2 > target {
            continue;
        }
        let extra = target - c;
        // Void header = 1 id byte + minimal size field for the payload
        let payload = match (2..=5u64).find(|h| extra >= *h && crate::refcodec::min_size_width(extra - h).map(|w| w as u64 + 1) == Some(*h)) {
            Some(h) => extra - h,
            None => continue,
        };
        n.children.push(Node::leaf(Item::B(VOID_ID, rng.bytes(payload as usize))));
        debug_assert_eq!(content_len(n), target);
        return true;
    }
    false
}

/// Insert raw (unknown-id) leaves at random positions; ids are well-formed and not in the spec.
pub fn add_raw_tags(rng: &mut Rng, spec: &Spec, nodes: &mut Vec<Node>, n: usize) {
    for _ in 0..n {
        let id = loop {
            let l = rng.urange(1, 4);
            let id = random_id(rng, l);
            if spec.get(id).is_none() {
                break id;
            }
        };
        let len = lattice_len(rng, false);
        let leaf = Node::leaf(Item::Raw(id, rng.bytes(len)));
        // choose a random master (or top level)
        let mut target: &mut Vec<Node> = nodes;
        loop {
            let masters: Vec<usize> = target.iter().enumerate().filter(|(_, x)| x.is_master()).map(|(i, _)| i).collect();
            if masters.is_empty() || rng.chance(1, 3) {
                break;
            }
            let i = *rng.pick(&masters);
            target = &mut target[i].children;
        }
        let pos = rng.urange(0, target.len());
        target.insert(pos, leaf);
    }
}

pub fn len_class(n: usize) -> &'static str {
    match n {
        0 => "len0",
        1..=125 => "len1-125",
        126 => "len126",
        127 => "len127",
        128 => "len128",
        129..=16381 => "len129-16381",
        16382 => "len16382",
        16383 => "len16383",
        16384 => "len16384",
        2_097_150 => "len2097150",
        2_097_151 => "len2097151",
        2_097_152 => "len2097152",
        _ => "len>16384",
    }
}

/// Offset shaping: make an explicit-width master start exactly when 2^(7w)-1 (or a neighbouring number of) bytes of its
/// known-size parent's content precede it, by inserting a Void sibling of the right total length in front of it.
pub fn shape_offset_boundary(rng: &mut Rng, nodes: &mut [Node]) -> bool {
    let cands: Vec<usize> = nodes.iter().enumerate().filter(|(_, n)| n.is_master() && n.opt != SizeOpt::Unknown && n.children.iter().any(|c| c.is_master())).map(|(i, _)| i).collect();
    if cands.is_empty() {
        return false;
    }
    let k = &mut nodes[*rng.pick(&cands)];
    let js: Vec<usize> = k.children.iter().enumerate().filter(|(_, c)| c.is_master()).map(|(j, _)| j).collect();
    let j = *rng.pick(&js);
    let (w, t): (usize, u64) = *rng.pick(&[(1usize, 127u64), (1, 127), (2, 16383), (1, 126), (1, 128), (2, 16384)]);
    let before: u64 = k.children[..j].iter().map(total_len).sum();
    if before + 2 > t {
        return false;
    }
    let need = t - before; // total encoded length of the Void to insert
    let payload = match (2..=5u64).find(|h| need >= *h && crate::refcodec::min_size_width(need - h).map(|x| x as u64 + 1) == Some(*h)) {
        Some(h) => need - h,
        None => return false,
    };
    k.children[j].opt = SizeOpt::Width(w);
    k.children.insert(j, Node::leaf(Item::B(VOID_ID, rng.bytes(payload as usize))));
    true
}
